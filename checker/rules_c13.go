package main

import (
	"fmt"
	"go/token"
	"go/types"
	"strings"

	"golang.org/x/tools/go/ssa"
)

func init() {
	register("C13",
		"Decides structural necessary conditions of 'expired entries are swept within one tick': no unsigned subtraction between a node deadline and the wheel clock can wrap (ordering test or clamp dominates it, and the clamped value is the one used for slot selection); "+
			"the sweep hands every unlinked timer to exactly one of {expire callback, re-Add} and expires only on deadline < wheel time, passing that wheel time; DeleteExpired advances the wheel clock before sweeping; maintenance replays the write buffer and the caller's task before it sweeps, with a fresh clock sample; "+
			"task replay schedules every alive node that has expiration and reads re-schedule (shared with C05.runTask). NOT decided: the bucket/span/shift arithmetic, cascading, and the 1.08 s bound itself.",
		[]string{"the clock is monotonic between sweeps", "uint64 arithmetic per the Go spec"},
		ruleC13Clamp, ruleC13NoDrop, ruleC13Span, ruleWheelShape, ruleC13Tables, ruleC13Advance, ruleC13FindBucket, ruleC13Order, ruleC05RunTask, ruleC05Task, ruleEvict)
}

const expPkg = "internal/expiration"

// deadlineDerived: v derives (through conversions, phis, shifts) from a node's ExpiresAt() or from findBucket's parameter.
func deadlineDerived(cx *Ctx, v ssa.Value, seen map[ssa.Value]bool) bool {
	if seen[v] {
		return false
	}
	seen[v] = true
	switch x := v.(type) {
	case *ssa.Parameter:
		fb := cx.P.Func(expPkg, "Variable", "findBucket")
		return fb != nil && x.Parent() == fb && len(fb.Params) > 1 && x == fb.Params[1]
	case *ssa.Call:
		if isBuiltinCall(x, "max") || isBuiltinCall(x, "min") {
			for _, a := range x.Call.Args {
				if deadlineDerived(cx, a, seen) {
					return true
				}
			}
			return false
		}
		return invokeName(x) == "ExpiresAt"
	case *ssa.Convert:
		return deadlineDerived(cx, x.X, seen)
	case *ssa.Phi:
		for _, e := range x.Edges {
			if deadlineDerived(cx, e, seen) {
				return true
			}
		}
	}
	return false
}

// isTimeLoad: v is the wheel time - a load of Variable.time, or a parameter that receives it at every call site
// (a helper that takes the current wheel time from its caller).
func isTimeLoad(v ssa.Value, timeF *types.Var) bool {
	return isWheelTime(v, timeF, 0)
}

var wheelTimeProg *Program

func isWheelTime(v ssa.Value, timeF *types.Var, depth int) bool {
	v = stripConv(v)
	if sameField(fieldOf(v), timeF) && stripLoad(v) != v {
		return true
	}
	p, ok := v.(*ssa.Parameter)
	if !ok || depth > 2 || wheelTimeProg == nil {
		return false
	}
	fn := p.Parent()
	idx := -1
	for i, q := range fn.Params {
		if q == p {
			idx = i
		}
	}
	sites := 0
	all := true
	for _, g := range wheelTimeProg.FuncsOfPkg(expPkg) {
		allInstrs(g, func(in ssa.Instruction) {
			cc := callCommon(in)
			if cc == nil || cc.IsInvoke() || cc.StaticCallee() == nil || origin(cc.StaticCallee()) != origin(fn) || idx >= len(cc.Args) {
				return
			}
			sites++
			if !isWheelTime(cc.Args[idx], timeF, depth+1) {
				all = false
			}
		})
	}
	return sites > 0 && all
}

func ruleC13Clamp(cx *Ctx) {
	const rule = "C13.clamp"
	cx.R.Rule(rule, 1, "an unsigned subtraction deadline - wheelTime is dominated by the test deadline >= wheelTime or operates on a deadline clamped to the wheel time; slot selection uses the clamped deadline")
	timeF := cx.needField(rule, expPkg, "Variable", "time")
	if timeF == nil {
		return
	}
	wheelTimeProg = cx.P
	n := 0
	for _, fn := range cx.P.FuncsOfPkg(expPkg) {
		name := funcName(fn)
		allInstrs(fn, func(in ssa.Instruction) {
			b, ok := in.(*ssa.BinOp)
			if !ok || b.Op != token.SUB {
				return
			}
			if !deadlineDerived(cx, b.X, map[ssa.Value]bool{}) || !isTimeLoad(b.Y, timeF) {
				return
			}
			n++
			safe := false
			// (a) dominating ordering test
			for _, g := range guardsAt(b.Block()) {
				c, ok := g.Cond.(*ssa.BinOp)
				if !ok {
					continue
				}
				if c.X == b.X && isTimeLoad(c.Y, timeF) {
					if (c.Op == token.LSS && !g.Truth) || (c.Op == token.GEQ && g.Truth) {
						safe = true
					}
				}
			}
			// (b') clamp by the builtin: max(deadline, wheel time)
			if m, ok := b.X.(*ssa.Call); ok && !safe && isBuiltinCall(m, "max") {
				for _, a := range m.Call.Args {
					if isTimeLoad(a, timeF) {
						safe = true
					}
				}
			}
			// (b) clamp: every phi edge is either the wheel time itself or guarded by edge >= wheel time
			if ph, ok := b.X.(*ssa.Phi); ok && !safe {
				all := true
				for i, e := range ph.Edges {
					if isTimeLoad(e, timeF) {
						continue
					}
					okEdge := false
					for _, g := range guardsOnEdge(ph.Block().Preds[i], ph.Block()) {
						c, ok := g.Cond.(*ssa.BinOp)
						if ok && c.X == e && isTimeLoad(c.Y, timeF) && ((c.Op == token.LSS && !g.Truth) || (c.Op == token.GEQ && g.Truth)) {
							okEdge = true
						}
					}
					if !okEdge {
						all = false
					}
				}
				safe = all
			}
			cx.R.Check(safe, rule, name, fmt.Sprintf("deadline - wheelTime #%d", n), cx.P.where(b),
				"the unsigned subtraction cannot wrap: a timer whose deadline lies behind the wheel clock (write replayed after a sweep) is clamped, not sent days ahead")
			// slot selection uses the same (clamped) value
			if safe {
				raw := false
				allInstrs(fn, func(x ssa.Instruction) {
					if s, ok := x.(*ssa.BinOp); ok && (s.Op == token.SHR || s.Op == token.QUO) {
						if p, isP := s.X.(*ssa.Parameter); isP && deadlineDerived(cx, p, map[ssa.Value]bool{}) && s.X != b.X {
							raw = true
						}
					}
				})
				cx.R.Check(!raw, rule, name, "slot from clamped deadline", cx.P.where(b), "the tick used for slot selection is computed from the clamped deadline")
			}
		})
	}
}

func ruleC13NoDrop(cx *Ctx) {
	const rule = "C13.nodrop"
	cx.R.Rule(rule, 1, "the sweep hands each unlinked timer to exactly one of {expire callback, re-Add}; it expires only on deadline < wheel time and passes that wheel time to the callback")
	add := cx.need(rule, expPkg, "Variable", "Add")
	timeF := cx.needField(rule, expPkg, "Variable", "time")
	de := cx.need(rule, expPkg, "Variable", "DeleteExpired")
	if add == nil || timeF == nil || de == nil {
		return
	}
	// path summaries of the whole sweep (helpers and their loops inlined, Add summarised): decided on the event
	// trace, so the sweep may be one function or a pipeline of helpers
	ps := newPathSum(cx)
	ps.inlinePkgs = map[string]bool{pkgPath(expPkg): true}
	ps.alsoRelevant = []string{"ExpiresAt("}
	for _, f := range cx.P.FuncsOfPkg(expPkg) {
		if f.Parent() == nil && origin(f) != origin(add) {
			ps.inlineLoops[origin(f)] = true
		}
	}
	// entry: the innermost function that takes the expire callback and unlinks timers itself (SetNextExp(nil)); the
	// hand-over may sit in helpers below it, which are inlined
	var entry *ssa.Function
	var cb *ssa.Parameter
	for _, f := range cx.P.FuncsOfPkg(expPkg) {
		if f.Parent() != nil {
			continue
		}
		var p2 *ssa.Parameter
		for _, p := range f.Params {
			if sig, ok := p.Type().Underlying().(*types.Signature); ok && sig.Params().Len() == 2 {
				p2 = p
			}
		}
		if p2 == nil {
			continue
		}
		allInstrs(f, func(in ssa.Instruction) {
			if c, ok := in.(*ssa.Call); ok && invokeName(c) == "SetNextExp" && isNilConst(c.Call.Args[0]) {
				entry, cb = f, p2
			}
		})
	}
	if entry == nil {
		cx.R.Violate(rule, "expiration", "unlink", "-", "NOT SATISFIED: no sweep function unlinks timers (SetNextExp(nil)) and hands them to a callback")
		return
	}
	_ = de
	// census, independent of the path bound (a cut-off that needs a thousand iterations is on no enumerated path):
	// the sweep function and the helpers only it uses set a link to nil or to the node itself, nothing else
	{
		mine := map[*ssa.Function]bool{origin(entry): true}
		addReach := map[*ssa.Function]bool{}
		var mark func(f *ssa.Function, into map[*ssa.Function]bool)
		mark = func(f *ssa.Function, into map[*ssa.Function]bool) {
			f = origin(f)
			if f == nil || into[f] || f.Pkg == nil || !strings.HasSuffix(f.Pkg.Pkg.Path(), expPkg) {
				return
			}
			into[f] = true
			withClosures(f, func(g *ssa.Function) {
				allInstrs(g, func(in ssa.Instruction) {
					if c := calleeOf(in); c != nil {
						mark(c, into)
					}
				})
			})
		}
		mark(add, addReach)
		if del := cx.P.Func(expPkg, "Variable", "Delete"); del != nil {
			mark(del, addReach)
		}
		var grow func(f *ssa.Function)
		grow = func(f *ssa.Function) {
			withClosures(f, func(g *ssa.Function) {
				allInstrs(g, func(in ssa.Instruction) {
					if c := calleeOf(in); c != nil && c.Pkg != nil && strings.HasSuffix(c.Pkg.Pkg.Path(), expPkg) && !addReach[origin(c)] && !mine[origin(c)] {
						mine[origin(c)] = true
						grow(origin(c))
					}
				})
			})
		}
		grow(entry)
		for f := range mine {
			withClosures(f, func(g *ssa.Function) {
				allInstrs(g, func(in ssa.Instruction) {
					c, ok := in.(*ssa.Call)
					if !ok || (invokeName(c) != "SetNextExp" && invokeName(c) != "SetPrevExp") {
						return
					}
					arg := c.Call.Args[0]
					cx.R.Check(isNilConst(arg) || arg == c.Call.Value, rule, funcName(g), "sweep writes links only to detach", cx.P.where(in), "inside the sweep a link is set to nil (timer unlinked) or to the node itself (sentinel reset); every relinking goes through Add - a chain spliced back by hand overwrites what Add linked into the bucket meanwhile")
				})
			})
		}
	}
	outs := ps.Run(entry, nil)
	cx.R.AddInt("paths_enumerated", len(outs))
	if ps.capped {
		cx.R.Undecided(rule, funcName(entry), "path cap", cx.P.Pos(entry.Pos()), "path enumeration exceeded its bound")
		return
	}
	name := funcName(entry)
	a := newAgg(cx, rule, name, cx.P.Pos(entry.Pos()))
	recv := "param:" + pname(entry.Params[0])
	timeT := "load(" + recv + "." + fname(timeF) + ")"
	cbName := pname(cb)
	timers := 0
	for _, o := range outs {
		if o.Panic {
			continue
		}
		// the wheel time in force during the sweep is the one stored at the start (a cell): resolve its value
		timeVal := timeT
		for _, e := range o.S.trace {
			if e.Kind == "FieldStore" && e.Args[0] == recv+"."+fname(timeF) {
				timeVal = e.Args[1]
			}
		}
		// the sweep itself writes links only to detach: a bucket's sentinel is reset to point at itself, a timer's links
		// are cleared; every re-linking goes through Add (summarised here) - a chain spliced back by hand overwrites
		// whatever Add linked into the bucket meanwhile
		for _, e := range o.S.trace {
			if e.Kind == "NodeLink" && len(e.Args) >= 3 && (e.Args[1] == "SetNextExp" || e.Args[1] == "SetPrevExp") {
				a.check("sweep writes links only to detach", e.Args[2] == "nil" || e.Args[2] == e.Args[0], "inside the sweep a link is set to nil (timer unlinked) or to the node itself (sentinel reset); relinking is Add's job", fmt.Sprintf("%s.%s(%s)", e.Args[0], e.Args[1], e.Args[2]), o)
			}
		}
		unlinked := map[string]int{} // node -> index of its unlinking
		var order []string
		for i, e := range o.S.trace {
			if e.Kind == "NodeLink" && e.Args[1] == "SetNextExp" && e.Args[2] == "nil" {
				if _, seen := unlinked[e.Args[0]]; !seen {
					unlinked[e.Args[0]] = i
					order = append(order, e.Args[0])
				}
			}
		}
		for _, x := range order {
			timers++
			exp, readd := 0, 0
			var expEv psEvent
			for i, e := range o.S.trace {
				if i < unlinked[x] {
					continue
				}
				if e.Kind == "UserCall" && e.Args[0] == cbName && len(e.Args) > 2 && e.Args[2] == x {
					exp++
					expEv = e
				}
				if e.Kind == "ExpAdd" && e.Args[0] == x {
					readd++
				}
			}
			a.check("each unlinked timer handed over exactly once", exp+readd == 1, "each unlinked timer is expired or re-added exactly once", fmt.Sprintf("%s: %d expire, %d re-add", x, exp, readd), o)
			due, known := false, false
			for atom, v := range o.S.preds {
				if strings.HasPrefix(atom, "(ExpiresAt("+x+")<") {
					due, known = v, true
				}
				if strings.HasPrefix(atom, "(ExpiresAt("+x+")>=") {
					due, known = !v, true
				}
				if strings.HasPrefix(atom, "(ExpiresAt("+x+")<=") && v {
					due, known = true, true // <= also implies the callback's own HasExpired (<=)
				}
			}
			if exp == 1 {
				a.check("expire predicate", known && due, "the expire callback runs only for deadline < wheel time (so the callback's HasExpired(wheelTime) holds and the cause is Expiration)", "predicate known="+fmt.Sprint(known), o)
				timeOK := len(expEv.Args) == 4 && (expEv.Args[3] == timeVal || expEv.Args[3] == timeT)
				if !timeOK && len(expEv.Args) == 4 && strings.HasPrefix(expEv.Args[3], "param:") {
					// the sweep body is handed the wheel time by its caller: the predicate is evaluated against that very
					// parameter, and every caller passes the value it stored into (or loads from) the wheel's time field
					rhs := ""
					for atom := range o.S.preds {
						for _, op := range []string{"<", ">=", "<="} {
							pre := "(ExpiresAt(" + x + ")" + op
							if strings.HasPrefix(atom, pre) && strings.HasSuffix(atom, ")") {
								rhs = atom[len(pre) : len(atom)-1]
							}
						}
					}
					if rhs == expEv.Args[3] && paramIsWheelTime(cx, entry, strings.TrimPrefix(rhs, "param:"), timeF) {
						timeOK = true
					}
				}
				a.check("expire time argument", timeOK, "the callback receives the wheel time the predicate was evaluated against", "got "+fmt.Sprint(expEv.Args), o)
			}
			if readd == 1 {
				a.check("re-add only when not due", known && !due, "a timer is put back only when its deadline is not behind the wheel time", "predicate known="+fmt.Sprint(known), o)
			}
		}
	}
	a.check("timers analysed", timers > 0, "paths that unlink timers were found (non-vacuity)", "none", nil)
	a.flush()
	// re-Add on the other edge is Variable.Add (which re-links via findBucket)
	fb := cx.P.Func(expPkg, "Variable", "findBucket")
	link := cx.P.Func(expPkg, "", "link")
	okAdd := false
	if fb != nil && link != nil {
		var fbCall, linkCall ssa.Instruction
		allInstrs(add, func(in ssa.Instruction) {
			if isCallTo(in, fb) {
				fbCall = in
			}
			if isCallTo(in, link) {
				linkCall = in
			}
		})
		if fbCall != nil && linkCall != nil {
			var n ssa.Value
			for _, p := range add.Params[1:] {
				if isNodeType(p.Type()) {
					n = p
				}
			}
			fromDeadline, linksBucket, linksNode := false, false, false
			for _, x := range callArgs(fbCall) {
				if c, ok := stripConv(x).(*ssa.Call); ok && invokeName(c) == "ExpiresAt" && c.Call.Value == n {
					fromDeadline = true
				}
			}
			for _, x := range callArgs(linkCall) {
				if x == fbCall.(ssa.Value) {
					linksBucket = true
				}
				if x == n {
					linksNode = true
				}
			}
			okAdd = n != nil && fromDeadline && linksBucket && linksNode
		}
	}
	cx.R.Check(okAdd, rule, funcName(add), "schedule", cx.P.Pos(add.Pos()), "Add links the node into the bucket chosen from its own current deadline")
}

func ruleC13Advance(cx *Ctx) {
	const rule = "C13.advance"
	cx.R.Rule(rule, 1, "DeleteExpired stores the new wheel time before it sweeps and sweeps every level whose tick changed")
	fn := cx.need(rule, expPkg, "Variable", "DeleteExpired")
	sweep := cx.P.Func(expPkg, "Variable", "deleteExpiredFromBucket")
	if sweep == nil && fn != nil {
		// by role: the function of the package that DeleteExpired hands its expire callback to
		var cb *ssa.Parameter
		for _, p := range fn.Params {
			if sig, ok := p.Type().Underlying().(*types.Signature); ok && sig.Params().Len() == 2 {
				cb = p
			}
		}
		allInstrs(fn, func(in ssa.Instruction) {
			c := calleeOf(in)
			if c == nil || c.Pkg == nil || !strings.HasSuffix(c.Pkg.Pkg.Path(), expPkg) || cb == nil {
				return
			}
			for _, a := range callCommon(in).Args {
				if stripConv(a) == ssa.Value(cb) {
					sweep = origin(c)
				}
			}
		})
	}
	if sweep == nil {
		cx.R.Undecided(rule, "internal/expiration.Variable.deleteExpiredFromBucket", "anchor", "-", "anchored mechanism internal/expiration.Variable.deleteExpiredFromBucket does not resolve any more")
	}
	timeF := cx.needField(rule, expPkg, "Variable", "time")
	if fn == nil || sweep == nil || timeF == nil {
		return
	}
	name := funcName(fn)
	var st *ssa.Store
	var call ssa.Instruction
	allInstrs(fn, func(in ssa.Instruction) {
		if s, ok := in.(*ssa.Store); ok && sameField(fieldOf(s.Addr), timeF) {
			st = s
		}
		if isCallTo(in, sweep) {
			call = in
		}
	})
	okStore := st != nil && call != nil && instrDominates(st, call)
	if okStore {
		_, isParam := stripConv(st.Val).(*ssa.Parameter)
		okStore = isParam
	}
	cx.R.Check(okStore, rule, name, "advance ≺ sweep", cx.P.Pos(fn.Pos()), "the wheel clock is set to the caller's time before any bucket is swept (re-Add and the expire predicate use the new time)")
	if call != nil {
		// the sweep is skipped only when the level's tick did not change (delta == 0)
		ok := false
		for _, g := range guardsAt(call.Block()) {
			if x, c, isEq, okc := eqConst(g.Cond); okc && c == 0 && (isEq != g.Truth) {
				for _, a := range callArgs(call) {
					if derivedFrom(a, x, 0) {
						ok = true
					}
				}
			}
		}
		if !ok {
			// the same test written on the two tick counts: swept when current != previous, with current - previous
			for _, g := range guardsAt(call.Block()) {
				b, isB := g.Cond.(*ssa.BinOp)
				if !isB || (b.Op != token.EQL && b.Op != token.NEQ) || (b.Op == token.EQL) == g.Truth {
					continue
				}
				allInstrs(fn, func(in ssa.Instruction) {
					sub, isSub := in.(*ssa.BinOp)
					if !isSub || sub.Op != token.SUB || !((sub.X == b.X && sub.Y == b.Y) || (sub.X == b.Y && sub.Y == b.X)) {
						return
					}
					for _, a := range callArgs(call) {
						if derivedFrom(a, sub, 0) {
							ok = true
						}
					}
				})
			}
		}
		cx.R.Check(ok, rule, name, "level sweep", cx.P.where(call), "a level is swept whenever its tick delta is non-zero, with that delta")
		// ... and under no other condition: the guards of the sweep are the level loop's bound and tests of tick counts /
		// their difference (a coarser "has a whole second passed" test skips sweeps whose tick did change)
		isTick := func(v ssa.Value) bool {
			// a value computed from a time shifted by (or divided by the span of) the level
			var walk func(v ssa.Value, d int) bool
			walk = func(v ssa.Value, d int) bool {
				if d > 6 {
					return false
				}
				switch x := stripConv(v).(type) {
				case *ssa.BinOp:
					if x.Op == token.SHR || x.Op == token.QUO {
						return true
					}
					return walk(x.X, d+1) || walk(x.Y, d+1)
				case *ssa.Phi:
					for _, e := range x.Edges {
						if walk(e, d+1) {
							return true
						}
					}
				}
				return false
			}
			return walk(v, 0)
		}
		extra := ""
		for _, g := range guardsAt(call.Block()) {
			b, isB := g.Cond.(*ssa.BinOp)
			if !isB {
				extra = "a non-comparison guard"
				continue
			}
			if _, _, okI := loopInduction2(b); okI {
				continue // the level loop's bound
			}
			if isTick(b.X) || isTick(b.Y) {
				continue
			}
			extra = "guard " + b.String()
		}
		cx.R.Check(extra == "", rule, name, "no other sweep condition", cx.P.where(call), "only the level bound and the tick comparison decide whether a level is swept ("+extra+")")
	}
	// the wheel time is advanced on every returning path
	if st != nil {
		okAll := true
		allInstrs(fn, func(in ssa.Instruction) {
			if r, isR := in.(*ssa.Return); isR && !instrDominates(st, r) {
				okAll = false
			}
		})
		cx.R.Check(okAll, rule, name, "advance on every path", cx.P.where(st), "every call of DeleteExpired moves the wheel time to the caller's time (an early return leaves the wheel behind)")
	}
}

// loopInduction2: the comparison is the bound test of a counting loop (phi < bound or phi+1 < bound).
func loopInduction2(b *ssa.BinOp) (ssa.Value, ssa.Value, bool) {
	for _, v := range []ssa.Value{b.X, b.Y} {
		if ph, ok := v.(*ssa.Phi); ok {
			if init, bound, ok2 := loopInduction(ph); ok2 {
				return init, bound, true
			}
		}
		if _, _, _, ok := indexInduction(v); ok {
			return nil, nil, true
		}
	}
	return nil, nil, false
}

func ruleC13Order(cx *Ctx) {
	const rule = "C13.order"
	cx.R.Rule(rule, 1, "maintenance replays the write buffer and the caller's task before it sweeps the wheel, the sweep uses a fresh clock sample, and eviction follows")
	maint := cx.need(rule, "", "cache", "maintenance")
	rt := cx.need(rule, "", "cache", "runTask")
	de := cx.need(rule, expPkg, "Variable", "DeleteExpired")
	tryPop := cx.need(rule, queuePkg, "MPSC", "TryPop")
	evN := cx.need(rule, "", "policy", "evictNodes")
	if maint == nil || rt == nil || de == nil || tryPop == nil || evN == nil {
		return
	}
	name := funcName(maint)
	// the step of maintenance that performs `what`: the call itself or a call of a helper that reaches it
	step := func(what func(ssa.Instruction) bool) ssa.Instruction {
		var out ssa.Instruction
		allInstrs(maint, func(in ssa.Instruction) {
			if out != nil {
				return
			}
			if what(in) {
				out = in
				return
			}
			if c := calleeOf(in); c != nil && c.Pkg != nil && c.Pkg.Pkg.Path() == modPath && origin(c) != origin(rt) {
				if ok, _ := reachesInstr(c, what, map[*ssa.Function]bool{}, nil); ok {
					out = in
				}
			}
		})
		return out
	}
	d := step(func(in ssa.Instruction) bool { return isCallTo(in, tryPop) })
	e := step(func(in ssa.Instruction) bool { return isCallTo(in, de) })
	v := step(func(in ssa.Instruction) bool { return isCallTo(in, evN) })
	var r ssa.Instruction
	allInstrs(maint, func(in ssa.Instruction) {
		if isCallTo(in, rt) {
			if a := callArgs(in); len(a) == 1 && a[0] == ssa.Value(bparam(maint, 1)) {
				r = in
			}
		}
	})
	cx.R.Check(d != nil && e != nil && instrDominates(d, e), rule, name, "replay ≺ sweep", cx.P.Pos(maint.Pos()), "draining the write buffer precedes the wheel sweep (a written entry is scheduled before the sweep that must find it)")
	taskFirst := r != nil && e != nil && instrDominates(r, e)
	if !taskFirst && e != nil {
		// the task may be handed to a helper (the drain step, say) that runs it: on every path to the sweep the task
		// reaches runTask, directly or inside a callee that runs its parameter on all of its paths (a nil task excepted)
		taskFirst = runsTaskBefore(maint, ssa.Value(bparam(maint, 1)), rt, e, 0)
	}
	cx.R.Check(taskFirst, rule, name, "task ≺ sweep", cx.P.Pos(maint.Pos()), "the caller's own task is replayed - on every path, by maintenance or a helper it hands the task to - before the wheel sweep")
	cx.R.Check(d != nil && v != nil && instrDominates(d, v), rule, name, "replay ≺ evict", cx.P.Pos(maint.Pos()), "draining the write buffer precedes evictNodes (C04.setmax)")
	// the sweep precedes size eviction: an expired entry is removed - and reported - as expired by the sweep before the
	// policy can pick it as a size victim (the policy's callback has no clock sample: it would report Overflow)
	var ordered func(fn *ssa.Function, a, b func(ssa.Instruction) bool, depth int) bool
	ordered = func(fn *ssa.Function, a, b func(ssa.Instruction) bool, depth int) bool {
		if fn == nil || depth > 3 {
			return false
		}
		stepIn := func(what func(ssa.Instruction) bool) ssa.Instruction {
			var out ssa.Instruction
			allInstrs(fn, func(in ssa.Instruction) {
				if out != nil {
					return
				}
				if what(in) {
					out = in
					return
				}
				if c := calleeOf(in); c != nil && c.Pkg != nil && c.Pkg.Pkg.Path() == modPath && origin(c) != origin(rt) {
					if ok, _ := reachesInstr(c, what, map[*ssa.Function]bool{}, nil); ok {
						out = in
					}
				}
			})
			return out
		}
		x, y := stepIn(a), stepIn(b)
		if x == nil || y == nil {
			return false
		}
		if x == y {
			return ordered(origin(calleeOf(x)), a, b, depth+1)
		}
		// the sweep may sit under `if withExpiration`: ordered means it can be followed by the eviction and never follows it
		return instrDominates(x, y) || (canReach(x, y) && !canReach(y, x))
	}
	isSweep := func(in ssa.Instruction) bool { return isCallTo(in, de) }
	isEvict := func(in ssa.Instruction) bool { return isCallTo(in, evN) }
	cx.R.Check(ordered(maint, isSweep, isEvict, 0), rule, name, "sweep ≺ evict", cx.P.Pos(maint.Pos()), "the wheel sweep precedes evictNodes: what has expired is reported as expired, not as a size eviction")
	// the sweep runs against a fresh clock sample
	okNow := false
	for _, f := range cx.P.FuncsOfPkg("") {
		allInstrs(f, func(in ssa.Instruction) {
			if isCallTo(in, de) {
				a := callArgs(in)
				if c, ok := a[0].(*ssa.Call); ok && invokeName(c) == "NowNano" && c.Parent() == f {
					okNow = true
				} else {
					okNow = false
				}
			}
		})
	}
	cx.R.Check(okNow, rule, name, "fresh clock", cx.P.Pos(maint.Pos()), "the sweep runs against a clock sample taken right at the sweep, after the replay")
}

// ruleC13Span: the number of wheel slots a sweep visits depends on the untruncated tick delta.
func ruleC13Span(cx *Ctx) {
	const rule = "C13.span"
	cx.R.Rule(rule, 1, "the loop that walks the slots of one wheel level is controlled (exit condition, or a guard around it) by the tick delta since the previous sweep without truncation to the level's size: if the delta reached the loop control only masked / modulo the bucket count, a clock jump of a whole revolution would sweep as few slots as a one-tick step and leave due timers behind")
	wheel := cx.needField(rule, expPkg, "Variable", "wheel")
	if wheel == nil {
		return
	}
	// delta sources: (now >> s) - (prev >> s)
	tainted := map[ssa.Value]bool{}
	var spansG *ssa.Global
	for _, f := range cx.P.FuncsOfPkg(expPkg) {
		if f.Pkg != nil && spansG == nil {
			spansG, _ = f.Pkg.Members["spans"].(*ssa.Global)
		}
	}
	isShr := func(v ssa.Value) bool {
		b, ok := stripConv(v).(*ssa.BinOp)
		if ok && b.Op == token.QUO && spansG != nil {
			// t / spans[level]: the same tick count (spans are the powers of two 1 << shift, C13.tables)
			if ld, isLd := stripConv(b.Y).(*ssa.UnOp); isLd && ld.Op == token.MUL {
				if ia, isIA := ld.X.(*ssa.IndexAddr); isIA {
					if g, isG := ia.X.(*ssa.Global); isG && g == spansG {
						return true
					}
					if l2, isL := ia.X.(*ssa.UnOp); isL {
						if g, isG := l2.X.(*ssa.Global); isG && g == spansG {
							return true
						}
					}
				}
			}
		}
		return ok && b.Op == token.SHR
	}
	funcs := cx.P.FuncsOfPkg(expPkg)
	for _, f := range funcs {
		allInstrs(f, func(in ssa.Instruction) {
			if b, ok := in.(*ssa.BinOp); ok && b.Op == token.SUB && isShr(b.X) && isShr(b.Y) {
				tainted[b] = true
			}
		})
	}
	if len(tainted) == 0 {
		cx.R.Undecided(rule, "expiration", "tick delta", "-", "no value of the form (now >> shift) - (prev >> shift) found: the tick delta is computed differently; the rule does not apply")
		return
	}
	// propagate: arithmetic that keeps the magnitude; AND / REM / narrowing drop it
	taintedFields := map[*types.Var]bool{}
	for changed := true; changed; {
		changed = false
		mark := func(v ssa.Value) {
			if !tainted[v] {
				tainted[v] = true
				changed = true
			}
		}
		for _, f := range funcs {
			allInstrs(f, func(in ssa.Instruction) {
				switch x := in.(type) {
				case *ssa.BinOp:
					switch x.Op {
					case token.ADD, token.SUB, token.MUL, token.SHL:
						if tainted[x.X] || tainted[x.Y] {
							mark(x)
						}
					case token.SHR, token.QUO:
						if tainted[x.X] {
							mark(x)
						}
					}
				case *ssa.Phi:
					for _, e := range x.Edges {
						if tainted[e] {
							mark(x)
						}
					}
				case *ssa.Store:
					// a struct of the package that carries the delta (levelSweep{delta: d}): field-based - what is stored
					// into a field taints every read of that field
					if tainted[x.Val] {
						if fa, isFA := x.Addr.(*ssa.FieldAddr); isFA {
							if fv := fieldOf(fa); fv != nil && fv.Pkg() != nil && strings.HasSuffix(fv.Pkg().Path(), expPkg) && !taintedFields[fv] {
								taintedFields[fv] = true
								changed = true
							}
						}
					}
				case *ssa.UnOp:
					if x.Op == token.MUL {
						if fv := fieldOf(x.X); fv != nil && taintedFields[fv] {
							mark(x)
						}
					}
				case *ssa.Field:
					if fv := fieldOf(x); fv != nil && taintedFields[fv] {
						mark(x)
					}
				case *ssa.Convert:
					if tainted[x.X] {
						if b, ok := x.Type().Underlying().(*types.Basic); ok && (b.Kind() == types.Uint64 || b.Kind() == types.Int64 || b.Kind() == types.Int || b.Kind() == types.Uint) {
							mark(x)
						}
					}
				case *ssa.Call:
					cc := x.Common()
					if bi, ok := cc.Value.(*ssa.Builtin); ok && (bi.Name() == "min" || bi.Name() == "max") {
						for _, a := range cc.Args {
							if tainted[a] {
								mark(x)
							}
						}
					}
					if callee := origin(cc.StaticCallee()); callee != nil && !cc.IsInvoke() && len(callee.Params) == len(cc.Args) {
						for i, a := range cc.Args {
							if tainted[a] {
								mark(callee.Params[i])
							}
						}
					}
				}
			})
		}
	}
	condTainted := func(v ssa.Value) bool {
		for {
			if u, ok := v.(*ssa.UnOp); ok && u.Op == token.NOT {
				v = u.X
				continue
			}
			break
		}
		b, ok := v.(*ssa.BinOp)
		return ok && (tainted[b.X] || tainted[b.Y])
	}
	// slot selection: indexing the slice of one level, wheel[level][slot], with a non-constant slot
	found := 0
	for _, f := range funcs {
		allInstrs(f, func(in ssa.Instruction) {
			ia, ok := in.(*ssa.IndexAddr)
			if !ok {
				return
			}
			if _, isConst := ia.Index.(*ssa.Const); isConst {
				return
			}
			// ia.X is the level slice: a load of wheel[level]
			lvl, ok := stripLoad(ia.X).(*ssa.IndexAddr)
			if !ok || !sameField(fieldOf(lvl.X), wheel) {
				return
			}
			// only inside a function that sweeps (takes a callback) - findBucket also indexes the wheel
			sweeps := false
			for _, p := range outermost(f).Params {
				if sig, ok := p.Type().Underlying().(*types.Signature); ok && sig.Params().Len() == 2 {
					sweeps = true
				}
			}
			if !sweeps {
				return
			}
			// innermost loop containing the selection
			var best map[*ssa.BasicBlock]bool
			var header *ssa.BasicBlock
			for _, h := range f.Blocks {
				isHeader := false
				for _, p := range h.Preds {
					if h.Dominates(p) {
						isHeader = true
					}
				}
				if !isHeader {
					continue
				}
				l := naturalLoop(h)
				if l[ia.Block()] && (best == nil || len(l) < len(best)) {
					best, header = l, h
				}
			}
			if best == nil {
				return
			}
			found++
			ok2 := false
			for b := range best {
				if ifi, isIf := b.Instrs[len(b.Instrs)-1].(*ssa.If); isIf {
					exits := !best[b.Succs[0]] || !best[b.Succs[1]]
					if exits && condTainted(ifi.Cond) {
						ok2 = true
					}
				}
			}
			for _, g := range guardsAt(header) {
				if condTainted(g.Cond) {
					ok2 = true
				}
			}
			if id := header.Idom(); id != nil && !ok2 {
				for _, g := range guardsAt(id) {
					if condTainted(g.Cond) {
						ok2 = true
					}
				}
			}
			cx.R.Check(ok2, rule, funcName(f), fmt.Sprintf("slot loop #%d", found), cx.P.where(ia), "the slot loop's exit condition (or a guard around the loop) depends on the untruncated tick delta")
		})
	}
	if found == 0 {
		cx.R.Undecided(rule, "expiration", "slot loop", "-", "no loop selecting wheel[level][slot] in a sweeping function was found; the rule does not apply")
	}
}

// derivedFrom: v is x or computed from it by arithmetic / min / max / conversion.
func derivedFrom(v, x ssa.Value, depth int) bool {
	if v == x {
		return true
	}
	if depth > 5 {
		return false
	}
	switch t := v.(type) {
	case *ssa.BinOp:
		return derivedFrom(t.X, x, depth+1) || derivedFrom(t.Y, x, depth+1)
	case *ssa.Convert:
		return derivedFrom(t.X, x, depth+1)
	case *ssa.UnOp:
		// a struct value built from the quantity (levelSweep{delta: d}): any field store into the literal
		if al, ok := t.X.(*ssa.Alloc); ok {
			for _, r := range *al.Referrers() {
				if fa, isFA := r.(*ssa.FieldAddr); isFA {
					for _, u := range *fa.Referrers() {
						if st, isSt := u.(*ssa.Store); isSt && st.Addr == ssa.Value(fa) && derivedFrom(st.Val, x, depth+1) {
							return true
						}
					}
				}
			}
		}
	case *ssa.Call:
		if bi, ok := t.Call.Value.(*ssa.Builtin); ok && (bi.Name() == "min" || bi.Name() == "max") {
			for _, a := range t.Call.Args {
				if derivedFrom(a, x, depth+1) {
					return true
				}
			}
		}
	}
	return false
}

// runsTaskBefore: on every path of fn from its entry to `stop` (nil: to any return) the task value p is handed to
// runTask - directly, or to a callee of the module that does so on all of its own paths. Paths on which p was tested
// nil are exempt (there is no task), panicking exits do not count.
func runsTaskBefore(fn *ssa.Function, p ssa.Value, rt *ssa.Function, stop ssa.Instruction, depth int) bool {
	if depth > 2 || len(fn.Blocks) == 0 {
		return false
	}
	sat := func(in ssa.Instruction) bool {
		cc := callCommon(in)
		if cc == nil {
			return false
		}
		if _, isGo := in.(*ssa.Go); isGo {
			return false
		}
		g := calleeOf(in)
		if g == nil {
			return false
		}
		for i, a := range cc.Args {
			if a != p {
				continue
			}
			if origin(g) == origin(rt) {
				return true
			}
			og := origin(g)
			if og.Pkg != nil && strings.HasPrefix(og.Pkg.Pkg.Path(), modPath) && i < len(og.Params) && runsTaskBefore(og, og.Params[i], rt, nil, depth+1) {
				return true
			}
		}
		return false
	}
	seen := map[*ssa.BasicBlock]bool{}
	ok := true
	var walk func(b *ssa.BasicBlock)
	walk = func(b *ssa.BasicBlock) {
		if seen[b] || !ok {
			return
		}
		seen[b] = true
		for _, in := range b.Instrs {
			if stop != nil && in == stop {
				ok = false
				return
			}
			if sat(in) {
				return
			}
			switch x := in.(type) {
			case *ssa.Return:
				if stop == nil {
					ok = false
				}
				return
			case *ssa.Panic:
				return
			case *ssa.If:
				if v, isEq, isNil := nilCmp(x.Cond); isNil && v == p {
					// follow only the edge on which the task exists
					if isEq {
						walk(b.Succs[1])
					} else {
						walk(b.Succs[0])
					}
					return
				}
			}
		}
		for _, s := range b.Succs {
			walk(s)
		}
	}
	walk(fn.Blocks[0])
	return ok
}

// paramIsWheelTime: every call site of fn (inside the wheel's package) passes, for the named parameter, the value it
// stored into the wheel's time field or a load of that field.
func paramIsWheelTime(cx *Ctx, fn *ssa.Function, name string, timeF *types.Var) bool {
	idx := -1
	for i, p := range fn.Params {
		if pname(p) == name || p.Name() == name {
			idx = i
		}
	}
	if idx < 0 {
		return false
	}
	sites, ok := 0, true
	for _, g := range cx.P.FuncsOfPkg(expPkg) {
		allInstrs(g, func(in ssa.Instruction) {
			c := calleeOf(in)
			if c == nil || origin(c) != origin(fn) {
				return
			}
			sites++
			args := callCommon(in).Args
			if idx >= len(args) {
				ok = false
				return
			}
			v := stripConv(args[idx])
			if sameField(fieldOf(v), timeF) {
				return
			}
			stored := false
			allInstrs(g, func(x ssa.Instruction) {
				if st, isSt := x.(*ssa.Store); isSt && sameField(fieldOf(st.Addr), timeF) && stripConv(st.Val) == v {
					stored = true
				}
			})
			if !stored {
				ok = false
			}
		})
	}
	return sites > 0 && ok
}

package main

import (
	"fmt"
	"go/token"
	"go/types"

	"golang.org/x/tools/go/ssa"
)

func init() {
	register("C13",
		"Decides structural necessary conditions of 'expired entries are swept within one tick': no unsigned subtraction between a node deadline and the wheel clock can wrap (ordering test or clamp dominates it, and the clamped value is the one used for slot selection); "+
			"the sweep hands every unlinked timer to exactly one of {expire callback, re-Add} and expires only on deadline < wheel time, passing that wheel time; DeleteExpired advances the wheel clock before sweeping; maintenance replays the write buffer and the caller's task before it sweeps, with a fresh clock sample; "+
			"task replay schedules every alive node that has expiration and reads re-schedule (shared with C05.runTask). NOT decided: the bucket/span/shift arithmetic, cascading, and the 1.08 s bound itself.",
		[]string{"the clock is monotonic between sweeps", "uint64 arithmetic per the Go spec"},
		ruleC13Clamp, ruleC13NoDrop, ruleC13Span, ruleWheelShape, ruleC13Tables, ruleC13Advance, ruleC13Order, ruleC05RunTask, ruleC05Task, ruleEvict)
}

const expPkg = "internal/expiration"

// deadlineDerived: v derives (through conversions, phis, shifts) from a node's ExpiresAt() or from findBucket's parameter.
func deadlineDerived(cx *Ctx, v ssa.Value, seen map[ssa.Value]bool) bool {
	if seen[v] {
		return false
	}
	seen[v] = true
	switch x := v.(type) {
	case *ssa.Parameter:
		fb := cx.P.Func(expPkg, "Variable", "findBucket")
		return fb != nil && x.Parent() == fb && len(fb.Params) > 1 && x == fb.Params[1]
	case *ssa.Call:
		return invokeName(x) == "ExpiresAt"
	case *ssa.Convert:
		return deadlineDerived(cx, x.X, seen)
	case *ssa.Phi:
		for _, e := range x.Edges {
			if deadlineDerived(cx, e, seen) {
				return true
			}
		}
	}
	return false
}

func isTimeLoad(v ssa.Value, timeF *types.Var) bool {
	return sameField(fieldOf(v), timeF) && stripLoad(v) != v
}

func ruleC13Clamp(cx *Ctx) {
	const rule = "C13.clamp"
	cx.R.Rule(rule, 1, "an unsigned subtraction deadline - wheelTime is dominated by the test deadline >= wheelTime or operates on a deadline clamped to the wheel time; slot selection uses the clamped deadline")
	timeF := cx.needField(rule, expPkg, "Variable", "time")
	if timeF == nil {
		return
	}
	n := 0
	for _, fn := range cx.P.FuncsOfPkg(expPkg) {
		name := funcName(fn)
		allInstrs(fn, func(in ssa.Instruction) {
			b, ok := in.(*ssa.BinOp)
			if !ok || b.Op != token.SUB {
				return
			}
			if !deadlineDerived(cx, b.X, map[ssa.Value]bool{}) || !isTimeLoad(b.Y, timeF) {
				return
			}
			n++
			safe := false
			// (a) dominating ordering test
			for _, g := range guardsAt(b.Block()) {
				c, ok := g.Cond.(*ssa.BinOp)
				if !ok {
					continue
				}
				if c.X == b.X && isTimeLoad(c.Y, timeF) {
					if (c.Op == token.LSS && !g.Truth) || (c.Op == token.GEQ && g.Truth) {
						safe = true
					}
				}
			}
			// (b) clamp: every phi edge is either the wheel time itself or guarded by edge >= wheel time
			if ph, ok := b.X.(*ssa.Phi); ok && !safe {
				all := true
				for i, e := range ph.Edges {
					if isTimeLoad(e, timeF) {
						continue
					}
					okEdge := false
					for _, g := range guardsOnEdge(ph.Block().Preds[i], ph.Block()) {
						c, ok := g.Cond.(*ssa.BinOp)
						if ok && c.X == e && isTimeLoad(c.Y, timeF) && ((c.Op == token.LSS && !g.Truth) || (c.Op == token.GEQ && g.Truth)) {
							okEdge = true
						}
					}
					if !okEdge {
						all = false
					}
				}
				safe = all
			}
			cx.R.Check(safe, rule, name, fmt.Sprintf("deadline - wheelTime #%d", n), cx.P.where(b),
				"the unsigned subtraction cannot wrap: a timer whose deadline lies behind the wheel clock (write replayed after a sweep) is clamped, not sent days ahead")
			// slot selection uses the same (clamped) value
			if safe {
				raw := false
				allInstrs(fn, func(x ssa.Instruction) {
					if s, ok := x.(*ssa.BinOp); ok && s.Op == token.SHR {
						if p, isP := s.X.(*ssa.Parameter); isP && deadlineDerived(cx, p, map[ssa.Value]bool{}) && s.X != b.X {
							raw = true
						}
					}
				})
				cx.R.Check(!raw, rule, name, "slot from clamped deadline", cx.P.where(b), "the tick used for slot selection is computed from the clamped deadline")
			}
		})
	}
}

func ruleC13NoDrop(cx *Ctx) {
	const rule = "C13.nodrop"
	cx.R.Rule(rule, 1, "the sweep hands each unlinked timer to exactly one of {expire callback, re-Add}; it expires only on deadline < wheel time and passes that wheel time to the callback")
	add := cx.need(rule, expPkg, "Variable", "Add")
	timeF := cx.needField(rule, expPkg, "Variable", "time")
	if add == nil || timeF == nil {
		return
	}
	// the sweep body is wherever a timer is unlinked (SetNextExp(nil)) next to a call of a callback parameter: it
	// may live in deleteExpiredFromBucket or in a helper extracted from it
	var fn *ssa.Function
	var unlink *ssa.Call
	for _, f := range cx.P.FuncsOfPkg(expPkg) {
		if len(f.Params) == 0 {
			continue
		}
		hasCB := false
		for _, p := range f.Params {
			if sig, ok := p.Type().Underlying().(*types.Signature); ok && sig.Params().Len() == 2 {
				hasCB = true
			}
		}
		if !hasCB {
			continue
		}
		allInstrs(f, func(in ssa.Instruction) {
			if c, ok := in.(*ssa.Call); ok && invokeName(c) == "SetNextExp" && isNilConst(c.Call.Args[0]) {
				fn, unlink = f, c
			}
		})
	}
	if fn == nil {
		cx.R.Violate(rule, "expiration", "unlink", "-", "NOT SATISFIED: no sweep function unlinks timers (SetNextExp(nil)) and hands them to a callback")
		return
	}
	name := funcName(fn)
	var cb *ssa.Parameter
	for _, p := range fn.Params {
		if sig, ok := p.Type().Underlying().(*types.Signature); ok && sig.Params().Len() == 2 {
			cb = p
		}
	}
	n := unlink.Call.Value
	isEvent := func(in ssa.Instruction) int {
		cc := callCommon(in)
		if cc == nil {
			return 0
		}
		if !cc.IsInvoke() && cc.Value == ssa.Value(cb) && len(cc.Args) > 0 && cc.Args[0] == n {
			return 1
		}
		if isCallTo(in, add) {
			if a := callArgs(in); len(a) == 1 && a[0] == n {
				return 1
			}
		}
		return 0
	}
	// from the unlink to the head of the inner loop (the block defining n, a phi)
	stop := func(b *ssa.BasicBlock) bool {
		if ph, ok := n.(*ssa.Phi); ok {
			return b == ph.Block()
		}
		return false
	}
	p := ptOf(unlink)
	p.I++
	exits := CountUntil(fn, p, isEvent, nil, stop)
	if len(exits) == 0 {
		cx.R.Undecided(rule, name, "iteration", cx.P.where(unlink), "cannot delimit one iteration of the timer loop")
	}
	for _, e := range exits {
		cx.R.Check(e.Count == 1, rule, name, fmt.Sprintf("iteration exit with %d hand-over(s)", e.Count), cx.P.where(unlink),
			"each unlinked timer is expired or re-added exactly once before the next timer is visited", e.Witness...)
	}
	// predicate and argument of the expire callback
	allInstrs(fn, func(in ssa.Instruction) {
		cc := callCommon(in)
		if cc == nil || cc.IsInvoke() || cc.Value != ssa.Value(cb) {
			return
		}
		pred := false
		for _, g := range guardsAt(in.Block()) {
			c, ok := g.Cond.(*ssa.BinOp)
			if !ok {
				continue
			}
			x := stripConv(c.X)
			if call, isCall := x.(*ssa.Call); isCall && invokeName(call) == "ExpiresAt" && call.Call.Value == cc.Args[0] && isTimeLoad(c.Y, timeF) {
				if (c.Op == token.LSS && g.Truth) || (c.Op == token.GEQ && !g.Truth) {
					pred = true
				}
				if c.Op == token.LEQ && g.Truth {
					pred = true // <= also implies the callback's own HasExpired (<=)
				}
			}
		}
		cx.R.Check(pred, rule, name, "expire predicate", cx.P.where(in), "the expire callback runs only for deadline < wheel time (so the callback's HasExpired(wheelTime) holds and the cause is Expiration)")
		cx.R.Check(len(cc.Args) == 2 && isTimeLoad(stripConv(cc.Args[1]), timeF), rule, name, "expire time argument", cx.P.where(in), "the callback receives the wheel time the predicate was evaluated against")
	})
	// re-Add on the other edge is Variable.Add (which re-links via findBucket)
	fb := cx.P.Func(expPkg, "Variable", "findBucket")
	link := cx.P.Func(expPkg, "", "link")
	okAdd := false
	if fb != nil && link != nil {
		var fbCall, linkCall ssa.Instruction
		allInstrs(add, func(in ssa.Instruction) {
			if isCallTo(in, fb) {
				fbCall = in
			}
			if isCallTo(in, link) {
				linkCall = in
			}
		})
		if fbCall != nil && linkCall != nil {
			a := callArgs(fbCall)
			la := callArgs(linkCall)
			if c, ok := stripConv(a[0]).(*ssa.Call); ok && invokeName(c) == "ExpiresAt" && c.Call.Value == ssa.Value(bparam(add, 1)) && la[0] == fbCall.(ssa.Value) && la[1] == ssa.Value(bparam(add, 1)) {
				okAdd = true
			}
		}
	}
	cx.R.Check(okAdd, rule, funcName(add), "schedule", cx.P.Pos(add.Pos()), "Add links the node into the bucket chosen from its own current deadline")
}

func ruleC13Advance(cx *Ctx) {
	const rule = "C13.advance"
	cx.R.Rule(rule, 1, "DeleteExpired stores the new wheel time before it sweeps and sweeps every level whose tick changed")
	fn := cx.need(rule, expPkg, "Variable", "DeleteExpired")
	sweep := cx.need(rule, expPkg, "Variable", "deleteExpiredFromBucket")
	timeF := cx.needField(rule, expPkg, "Variable", "time")
	if fn == nil || sweep == nil || timeF == nil {
		return
	}
	name := funcName(fn)
	var st *ssa.Store
	var call ssa.Instruction
	allInstrs(fn, func(in ssa.Instruction) {
		if s, ok := in.(*ssa.Store); ok && sameField(fieldOf(s.Addr), timeF) {
			st = s
		}
		if isCallTo(in, sweep) {
			call = in
		}
	})
	okStore := st != nil && call != nil && instrDominates(st, call)
	if okStore {
		_, isParam := stripConv(st.Val).(*ssa.Parameter)
		okStore = isParam
	}
	cx.R.Check(okStore, rule, name, "advance ≺ sweep", cx.P.Pos(fn.Pos()), "the wheel clock is set to the caller's time before any bucket is swept (re-Add and the expire predicate use the new time)")
	if call != nil {
		// the sweep is skipped only when the level's tick did not change (delta == 0)
		ok := false
		for _, g := range guardsAt(call.Block()) {
			if x, c, isEq, okc := eqConst(g.Cond); okc && c == 0 && (isEq != g.Truth) {
				if a := callArgs(call); len(a) >= 3 && a[2] == x {
					ok = true
				}
			}
		}
		cx.R.Check(ok, rule, name, "level sweep", cx.P.where(call), "a level is swept whenever its tick delta is non-zero, with that delta")
	}
}

func ruleC13Order(cx *Ctx) {
	const rule = "C13.order"
	cx.R.Rule(rule, 1, "maintenance replays the write buffer and the caller's task before it sweeps the wheel, the sweep uses a fresh clock sample, and eviction follows")
	maint := cx.need(rule, "", "cache", "maintenance")
	rt := cx.need(rule, "", "cache", "runTask")
	de := cx.need(rule, expPkg, "Variable", "DeleteExpired")
	tryPop := cx.need(rule, queuePkg, "MPSC", "TryPop")
	evN := cx.need(rule, "", "policy", "evictNodes")
	if maint == nil || rt == nil || de == nil || tryPop == nil || evN == nil {
		return
	}
	name := funcName(maint)
	// the step of maintenance that performs `what`: the call itself or a call of a helper that reaches it
	step := func(what func(ssa.Instruction) bool) ssa.Instruction {
		var out ssa.Instruction
		allInstrs(maint, func(in ssa.Instruction) {
			if out != nil {
				return
			}
			if what(in) {
				out = in
				return
			}
			if c := calleeOf(in); c != nil && c.Pkg != nil && c.Pkg.Pkg.Path() == modPath && origin(c) != origin(rt) {
				if ok, _ := reachesInstr(c, what, map[*ssa.Function]bool{}, nil); ok {
					out = in
				}
			}
		})
		return out
	}
	d := step(func(in ssa.Instruction) bool { return isCallTo(in, tryPop) })
	e := step(func(in ssa.Instruction) bool { return isCallTo(in, de) })
	v := step(func(in ssa.Instruction) bool { return isCallTo(in, evN) })
	var r ssa.Instruction
	allInstrs(maint, func(in ssa.Instruction) {
		if isCallTo(in, rt) {
			if a := callArgs(in); len(a) == 1 && a[0] == ssa.Value(bparam(maint, 1)) {
				r = in
			}
		}
	})
	cx.R.Check(d != nil && e != nil && instrDominates(d, e), rule, name, "replay ≺ sweep", cx.P.Pos(maint.Pos()), "draining the write buffer precedes the wheel sweep (a written entry is scheduled before the sweep that must find it)")
	cx.R.Check(r != nil && e != nil && instrDominates(r, e), rule, name, "task ≺ sweep", cx.P.Pos(maint.Pos()), "the caller's own task is replayed before the wheel sweep")
	cx.R.Check(d != nil && v != nil && instrDominates(d, v), rule, name, "replay ≺ evict", cx.P.Pos(maint.Pos()), "draining the write buffer precedes evictNodes (C04.setmax)")
	// the sweep runs against a fresh clock sample
	okNow := false
	for _, f := range cx.P.FuncsOfPkg("") {
		allInstrs(f, func(in ssa.Instruction) {
			if isCallTo(in, de) {
				a := callArgs(in)
				if c, ok := a[0].(*ssa.Call); ok && invokeName(c) == "NowNano" && c.Parent() == f {
					okNow = true
				} else {
					okNow = false
				}
			}
		})
	}
	cx.R.Check(okNow, rule, name, "fresh clock", cx.P.Pos(maint.Pos()), "the sweep runs against a clock sample taken right at the sweep, after the replay")
}

// ruleC13Span: the number of wheel slots a sweep visits depends on the untruncated tick delta.
func ruleC13Span(cx *Ctx) {
	const rule = "C13.span"
	cx.R.Rule(rule, 1, "the loop that walks the slots of one wheel level is controlled (exit condition, or a guard around it) by the tick delta since the previous sweep without truncation to the level's size: if the delta reached the loop control only masked / modulo the bucket count, a clock jump of a whole revolution would sweep as few slots as a one-tick step and leave due timers behind")
	wheel := cx.needField(rule, expPkg, "Variable", "wheel")
	if wheel == nil {
		return
	}
	// delta sources: (now >> s) - (prev >> s)
	tainted := map[ssa.Value]bool{}
	isShr := func(v ssa.Value) bool {
		b, ok := stripConv(v).(*ssa.BinOp)
		return ok && b.Op == token.SHR
	}
	funcs := cx.P.FuncsOfPkg(expPkg)
	for _, f := range funcs {
		allInstrs(f, func(in ssa.Instruction) {
			if b, ok := in.(*ssa.BinOp); ok && b.Op == token.SUB && isShr(b.X) && isShr(b.Y) {
				tainted[b] = true
			}
		})
	}
	if len(tainted) == 0 {
		cx.R.Undecided(rule, "expiration", "tick delta", "-", "no value of the form (now >> shift) - (prev >> shift) found: the tick delta is computed differently; the rule does not apply")
		return
	}
	// propagate: arithmetic that keeps the magnitude; AND / REM / narrowing drop it
	for changed := true; changed; {
		changed = false
		mark := func(v ssa.Value) {
			if !tainted[v] {
				tainted[v] = true
				changed = true
			}
		}
		for _, f := range funcs {
			allInstrs(f, func(in ssa.Instruction) {
				switch x := in.(type) {
				case *ssa.BinOp:
					switch x.Op {
					case token.ADD, token.SUB, token.MUL, token.SHL:
						if tainted[x.X] || tainted[x.Y] {
							mark(x)
						}
					case token.SHR, token.QUO:
						if tainted[x.X] {
							mark(x)
						}
					}
				case *ssa.Phi:
					for _, e := range x.Edges {
						if tainted[e] {
							mark(x)
						}
					}
				case *ssa.Convert:
					if tainted[x.X] {
						if b, ok := x.Type().Underlying().(*types.Basic); ok && (b.Kind() == types.Uint64 || b.Kind() == types.Int64 || b.Kind() == types.Int || b.Kind() == types.Uint) {
							mark(x)
						}
					}
				case *ssa.Call:
					cc := x.Common()
					if bi, ok := cc.Value.(*ssa.Builtin); ok && (bi.Name() == "min" || bi.Name() == "max") {
						for _, a := range cc.Args {
							if tainted[a] {
								mark(x)
							}
						}
					}
					if callee := origin(cc.StaticCallee()); callee != nil && !cc.IsInvoke() && len(callee.Params) == len(cc.Args) {
						for i, a := range cc.Args {
							if tainted[a] {
								mark(callee.Params[i])
							}
						}
					}
				}
			})
		}
	}
	condTainted := func(v ssa.Value) bool {
		for {
			if u, ok := v.(*ssa.UnOp); ok && u.Op == token.NOT {
				v = u.X
				continue
			}
			break
		}
		b, ok := v.(*ssa.BinOp)
		return ok && (tainted[b.X] || tainted[b.Y])
	}
	// slot selection: indexing the slice of one level, wheel[level][slot], with a non-constant slot
	found := 0
	for _, f := range funcs {
		allInstrs(f, func(in ssa.Instruction) {
			ia, ok := in.(*ssa.IndexAddr)
			if !ok {
				return
			}
			if _, isConst := ia.Index.(*ssa.Const); isConst {
				return
			}
			// ia.X is the level slice: a load of wheel[level]
			lvl, ok := stripLoad(ia.X).(*ssa.IndexAddr)
			if !ok || !sameField(fieldOf(lvl.X), wheel) {
				return
			}
			// only inside a function that sweeps (takes a callback) - findBucket also indexes the wheel
			sweeps := false
			for _, p := range outermost(f).Params {
				if sig, ok := p.Type().Underlying().(*types.Signature); ok && sig.Params().Len() == 2 {
					sweeps = true
				}
			}
			if !sweeps {
				return
			}
			// innermost loop containing the selection
			var best map[*ssa.BasicBlock]bool
			var header *ssa.BasicBlock
			for _, h := range f.Blocks {
				isHeader := false
				for _, p := range h.Preds {
					if h.Dominates(p) {
						isHeader = true
					}
				}
				if !isHeader {
					continue
				}
				l := naturalLoop(h)
				if l[ia.Block()] && (best == nil || len(l) < len(best)) {
					best, header = l, h
				}
			}
			if best == nil {
				return
			}
			found++
			ok2 := false
			for b := range best {
				if ifi, isIf := b.Instrs[len(b.Instrs)-1].(*ssa.If); isIf {
					exits := !best[b.Succs[0]] || !best[b.Succs[1]]
					if exits && condTainted(ifi.Cond) {
						ok2 = true
					}
				}
			}
			for _, g := range guardsAt(header) {
				if condTainted(g.Cond) {
					ok2 = true
				}
			}
			if id := header.Idom(); id != nil && !ok2 {
				for _, g := range guardsAt(id) {
					if condTainted(g.Cond) {
						ok2 = true
					}
				}
			}
			cx.R.Check(ok2, rule, funcName(f), fmt.Sprintf("slot loop #%d", found), cx.P.where(ia), "the slot loop's exit condition (or a guard around the loop) depends on the untruncated tick delta")
		})
	}
	if found == 0 {
		cx.R.Undecided(rule, "expiration", "slot loop", "-", "no loop selecting wheel[level][slot] in a sweeping function was found; the rule does not apply")
	}
}

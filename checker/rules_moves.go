package main

import (
	"fmt"
	"sort"
	"strings"
)

// linear parses a term built from +, - and unary minus into atom -> coefficient.
func linear(t string, k int, out map[string]int) {
	if strings.HasPrefix(t, "-") && len(t) > 1 {
		linear(t[1:], -k, out)
		return
	}
	if lhs, op, rhs, ok := splitBin(t); ok && (op == "+" || op == "-") {
		linear(lhs, k, out)
		if op == "+" {
			linear(rhs, k, out)
		} else {
			linear(rhs, -k, out)
		}
		return
	}
	out[t] += k
	if out[t] == 0 {
		delete(out, t)
	}
}

func linString(m map[string]int) string {
	var ks []string
	for k, v := range m {
		ks = append(ks, fmt.Sprintf("%+d*%s", v, k))
	}
	sort.Strings(ks)
	return strings.Join(ks, " ")
}

// ruleC05Moves: the policy functions that move entries between the window, probation and protected queues conserve
// membership and keep the per-queue weight counters in step with it.
func ruleC05Moves(cx *Ctx) {
	const rule = "C05.moves"
	cx.R.Rule(rule, 5, "queue transfers (access promotion, window->probation, hill-climber increaseWindow/decreaseWindow, demoteFromMainProtected): every node unlinked from a queue it is known to be in is linked into exactly one queue, tagged with that queue's type last, and windowWeightedSize / mainProtectedWeightedSize change by exactly the weights that entered/left the window / protected queue; weightedSize is untouched")
	tagOf := map[string]string{"window": "MakeWindow", "probation": "MakeMainProbation", "protected": "MakeMainProtected"}
	counterOf := map[string]string{"window": "windowWeightedSize", "protected": "mainProtectedWeightedSize"}
	inPred := map[string]string{"window": "InWindow", "probation": "InMainProbation", "protected": "InMainProtected"}
	for _, fnName := range []string{"access", "evictFromWindow", "increaseWindow", "decreaseWindow", "demoteFromMainProtected"} {
		r := cx.runOp(rule, opSpec{fnName, "policy", fnName, nil, "moves", nil})
		if r == nil {
			continue
		}
		a := newAgg(cx, rule, funcName(r.fn), cx.P.Pos(r.fn.Pos()))
		p := "param:" + pname(bparam(r.fn, 0))
		transfers := 0
		for _, o := range r.outs {
			if o.Panic {
				continue
			}
			type mv struct {
				from, to []string
				fromJust bool
				lastTag  string
			}
			nodes := map[string]*mv{}
			var order []string
			get := func(n string) *mv {
				if m, ok := nodes[n]; ok {
					return m
				}
				m := &mv{}
				nodes[n] = m
				order = append(order, n)
				return m
			}
			heads := map[string]string{} // node symbol -> queue it was read from
			contains := map[string]bool{}
			for _, e := range o.S.trace {
				if e.Kind == "NodeQueue" {
					get(e.Args[0]).lastTag = e.Args[1]
					continue
				}
				for _, m := range []string{"Head", "Tail", "PopFront", "PopBack", "Delete", "PushBack", "PushFront", "Contains", "NotContains"} {
					q, n, ok := dequeCall(e, m)
					if !ok {
						continue
					}
					switch m {
					case "Head", "Tail":
						heads[e.Res] = q
					case "PopFront", "PopBack":
						x := get(e.Res)
						x.from = append(x.from, q)
						x.fromJust = true
					case "Delete":
						x := get(n)
						x.from = append(x.from, q)
						// the node was read from q: its head/tail, or reached from it over the intrusive links
						base := n
						for strings.HasPrefix(base, "Next(") || strings.HasPrefix(base, "Prev(") {
							base = base[5 : len(base)-1]
						}
						if heads[base] == q {
							x.fromJust = true
						}
						if contains[q+"|"+n] {
							x.fromJust = true
						}
					case "PushBack", "PushFront":
						x := get(n)
						x.to = append(x.to, q)
					case "Contains":
						if v, k := predOf(o, e.Res); k && v {
							contains[q+"|"+n] = true
						}
					case "NotContains":
						if v, k := predOf(o, e.Res); k && !v {
							contains[q+"|"+n] = true
						}
					}
				}
			}
			wantDelta := map[string]map[string]int{"windowWeightedSize": {}, "mainProtectedWeightedSize": {}}
			for _, n := range order {
				m := nodes[n]
				if len(m.from) == 0 && len(m.to) == 0 {
					a.check("tag only with a move", m.lastTag == "", "a node's queue tag changes only together with a move", "re-tagged "+n+" without moving it", o)
					continue
				}
				if isNil, k := predOf(o, "IsNil("+n+")"); k && isNil {
					continue // a pop that found the queue empty
				}
				transfers++
				a.check("unlinked once, linked once", len(m.from) == 1 && len(m.to) == 1, "a transferred node leaves exactly one queue and enters exactly one", fmt.Sprintf("%s: from %v to %v", n, m.from, m.to), o)
				if len(m.from) != 1 || len(m.to) != 1 {
					continue
				}
				from, to := m.from[0], m.to[0]
				just := m.fromJust
				if !just {
					// the node's tag says which queue it is in and membership was tested
					if v, k := predOf(o, inPred[from]+"("+n+")"); k && v && contains[from+"|"+n] {
						just = true
					}
				}
				a.check("unlinked from the queue it is in", just, "the source queue is the one the node was read from (Head/Pop) or tested to be contained in", n+" unlinked from "+from+" without evidence", o)
				a.check("tagged as its new queue", m.lastTag == tagOf[to], "the node's queue tag is set to the destination queue", fmt.Sprintf("%s linked into %s, last tag %q", n, to, m.lastTag), o)
				if c, ok := counterOf[from]; ok && from != to {
					wantDelta[c]["Weight("+n+")"]--
				}
				if c, ok := counterOf[to]; ok && from != to {
					wantDelta[c]["Weight("+n+")"]++
				}
			}
			if o.Cut {
				continue
			}
			for c, want := range wantDelta {
				for k, v := range want {
					if v == 0 {
						delete(want, k)
					}
				}
				got := map[string]int{}
				final := ""
				for _, e := range o.S.trace {
					if e.Kind == "FieldStore" && e.Args[0] == p+"."+c {
						final = e.Args[1]
					}
				}
				if final != "" {
					linear(final, 1, got)
					linear("load("+p+"."+c+")", -1, got)
				}
				a.check(c+" in step", linString(got) == linString(want), "the counter changes by exactly the weights that entered / left its queue on the path", fmt.Sprintf("change %q, transfers require %q", linString(got), linString(want)), o)
			}
			ws := 0
			for _, e := range o.S.trace {
				if e.Kind == "FieldStore" && e.Args[0] == p+".weightedSize" {
					ws++
				}
			}
			a.check("weightedSize untouched", ws == 0, "moving entries between queues does not change the total", fmt.Sprintf("%d store(s)", ws), o)
		}
		a.check("transfers analysed", transfers > 0, "the function performs queue transfers on some path (non-vacuity)", "none found", nil)
		a.flush()
	}
}

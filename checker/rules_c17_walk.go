package main

import (
	"go/token"

	"golang.org/x/tools/go/ssa"
)

// ruleC17Walk: the consumer side visits every stripe.
//
// Rings are attached to arbitrary stripes (the stripe is chosen by the producer's hash), so the table has holes. A walk
// that stops at the first empty stripe never drains - or counts - the rings behind it: their recorded reads are lost
// for good and their producers see a full ring forever.
func ruleC17Walk(cx *Ctx) {
	const rule = "C17.walk"
	cx.R.Rule(rule, 1, "every loop of package lossy that loads the stripes of a table (DrainTo, Len and their helpers) leaves the loop only through its bound: no exit edge is decided by the nil test of a stripe's ring, and an index loop runs from 0 to the table's length")
	buffers := cx.needField(rule, lossyPkg, "striped", "buffers")
	lenF := cx.needField(rule, lossyPkg, "striped", "len")
	drain := cx.need(rule, lossyPkg, "Striped", "DrainTo")
	if buffers == nil || lenF == nil || drain == nil {
		return
	}
	// loads of a stripe: atomic Load on &t.buffers[i]
	stripeLoad := func(in ssa.Instruction) (ssa.Value, bool) {
		c, ok := in.(*ssa.Call)
		if !ok || !isStdMethod(c, "sync/atomic", "", "Load") {
			return nil, false
		}
		ia, ok := recvValue(c).(*ssa.IndexAddr)
		if !ok || !sameField(fieldOf(ia.X), buffers) {
			return nil, false
		}
		return ia.Index, true
	}
	// derivedFromLoad: v is a nil comparison (possibly negated / through a phi of such) of a stripe load
	isNilTestOf := func(cond ssa.Value, loads map[ssa.Value]bool) bool {
		seen := map[ssa.Value]bool{}
		var walk func(v ssa.Value) bool
		walk = func(v ssa.Value) bool {
			if seen[v] {
				return false
			}
			seen[v] = true
			switch x := v.(type) {
			case *ssa.UnOp:
				if x.Op == token.NOT {
					return walk(x.X)
				}
			case *ssa.BinOp:
				if y, _, ok := nilCmp(x); ok && loads[y] {
					return true
				}
			case *ssa.Phi:
				for _, e := range x.Edges {
					if walk(e) {
						return true
					}
				}
			}
			return false
		}
		return walk(cond)
	}
	nLoops, inDrain := 0, false
	// functions DrainTo runs: itself, its closures and its static callees in the package
	reach := map[*ssa.Function]bool{}
	var visit func(f *ssa.Function, d int)
	visit = func(f *ssa.Function, d int) {
		f = origin(f)
		if reach[f] || d > 3 || len(f.Blocks) == 0 {
			return
		}
		reach[f] = true
		for _, a := range f.AnonFuncs {
			visit(a, d)
		}
		allInstrs(f, func(in ssa.Instruction) {
			if g := calleeOf(in); g != nil && g.Pkg != nil && g.Pkg == f.Pkg {
				visit(g, d+1)
			}
		})
	}
	visit(drain, 0)
	for _, fn := range cx.P.FuncsOfPkg(lossyPkg) {
		fn := fn
		if len(fn.Blocks) == 0 {
			continue
		}
		// the expansion copies stripes while it builds a new table: same obligation (a hole must not end the copy)
		loadsIn := map[*ssa.BasicBlock][]ssa.Instruction{}
		allInstrs(fn, func(in ssa.Instruction) {
			if _, ok := stripeLoad(in); ok {
				loadsIn[in.Block()] = append(loadsIn[in.Block()], in)
			}
		})
		if len(loadsIn) == 0 {
			continue
		}
		for h := range loopHeaders(fn) {
			loop := naturalLoop(h)
			loads := map[ssa.Value]bool{}
			var idx ssa.Value
			var first ssa.Instruction
			for b, ins := range loadsIn {
				if !loop[b] {
					continue
				}
				for _, in := range ins {
					loads[in.(ssa.Value)] = true
					i, _ := stripeLoad(in)
					idx = i
					if first == nil {
						first = in
					}
				}
			}
			if len(loads) == 0 {
				continue
			}
			// only loops that walk the stripes: the index is loop carried
			ph, isPhi := idx.(*ssa.Phi)
			if !isPhi || !loop[ph.Block()] || ph.Block() != h {
				continue // the index is carried by an inner loop: that loop is the walk, not the retry loop around it
			}
			nLoops++
			if reach[origin(fn)] {
				inDrain = true
			}
			name := funcName(fn)
			ok := true
			where := cx.P.where(first)
			for b := range loop {
				i, isIf := b.Instrs[len(b.Instrs)-1].(*ssa.If)
				if !isIf {
					continue
				}
				for _, s := range b.Succs {
					if !loop[s] && isNilTestOf(i.Cond, loads) {
						ok = false
						where = cx.P.where(i)
					}
				}
			}
			cx.R.Check(ok, rule, name, "holes are skipped", where, "an empty stripe is skipped (the walk goes on with the next stripe), it does not end the walk: rings are attached to arbitrary stripes")
			if init, bound, okI := loopInduction(ph); okI {
				k, isK := constInt(init)
				bOK := sameField(fieldOf(bound), lenF)
				if c, isC := bound.(*ssa.Call); isC && isBuiltinCall(c, "len") {
					bOK = true
				}
				cx.R.Check(isK && k == 0 && bOK, rule, name, "all stripes", cx.P.where(first), "the walk runs over stripes 0 .. len-1 of the table")
			}
		}
	}
	if nLoops == 0 || !inDrain {
		cx.R.Violate(rule, funcName(drain), "walk", cx.P.Pos(drain.Pos()), "NOT SATISFIED: no loop over the table's stripes was found in (a helper of) DrainTo")
	}
}

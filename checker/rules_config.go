package main

// C01.config: construction refinement. The constructor New is summarised path by path (PATHSUM) under scenarios over the
// options; on every path the configuration the cache ends up with must be the one the options ask for. Every other
// rule assumes these facts ("withExpiration <=> a calculator is configured", "the executor flag tells whether the
// default executor is in use", "the maximum handed to the policy is the configured one").

import (
	"fmt"
	"go/types"
	"os"
	"sort"
	"strings"

	"golang.org/x/tools/go/ssa"
)

// optionAtoms: which option an atom of New's path conditions talks about ("" = none).
func optionOfAtom(atom string) string {
	i := strings.Index(atom, "param:o.")
	if i < 0 {
		return ""
	}
	rest := atom[i+len("param:o."):]
	j := 0
	for j < len(rest) && (rest[j] == '_' || rest[j] >= 'A' && rest[j] <= 'Z' || rest[j] >= 'a' && rest[j] <= 'z' || rest[j] >= '0' && rest[j] <= '9') {
		j++
	}
	return rest[:j]
}

// evalBoolTerm evaluates a boolean term of a path summary under the path's predicates.
func evalBoolTerm(o *psOutcome, t string) (bool, bool) {
	switch t {
	case "true":
		return true, true
	case "false":
		return false, true
	}
	atom, neg := splitNeg(t)
	if v, ok := lookupPred(o.S, atom); ok {
		return v != neg, true
	}
	if v, ok := cfgDecide(cfgAssign, atom); ok {
		return v != neg, true
	}
	return false, false
}

// cfgDecide: the value a scenario (a total assignment option -> set / not set) gives to an atom about an option.
func cfgDecide(assign map[string]bool, atom string) (bool, bool) {
	if atom == "IsNil(param:o)" {
		return false, true
	}
	if strings.HasPrefix(atom, "IsNil(res:New#") {
		return false, true // errors.New never returns nil
	}
	op := optionOfAtom(atom)
	if op == "" {
		return false, false
	}
	set := assign[op]
	switch {
	case strings.HasPrefix(atom, "IsNil(load(param:o."+op+"))"):
		return !set, true
	case strings.Contains(atom, "(load(param:o."+op+")>const(0))"):
		return set, true
	case strings.Contains(atom, "(load(param:o."+op+")<const(0))"):
		return false, true
	case strings.Contains(atom, "(load(param:o."+op+")<=const(0))"):
		return !set, true
	case atom == "Eq(load(param:o."+op+"),const(0))", atom == "Eq(const(0),load(param:o."+op+"))", strings.Contains(atom, "(load(param:o."+op+")==const(0))"):
		return !set, true
	case strings.Contains(atom, "(load(param:o."+op+")!=const(0))"):
		return set, true
	}
	return false, false
}

var cfgAssign map[string]bool

func ruleC01Config(cx *Ctx) {
	const rule = "C01.config"
	cx.R.Rule(rule, 10, "on every enumerated path of the constructor New, for scenarios over the options (quick: every option and the size / time option groups toggled against three backgrounds; thorough: all 4096 set / not-set assignments), the cache is wired as configured: feature flags agree with the options and with each other, the user's calculators, handlers, recorder, weigher and executor are the ones stored, the default-executor flag is true exactly when the default executor is stored, the policy gets the configured maximum, and the clock, timer wheel, buffers and janitor exist exactly under their flags")
	fn := cx.need(rule, "", "", "New")
	nc := cx.need(rule, "", "", "newCache")
	if fn == nil || nc == nil {
		return
	}
	options := []string{"MaximumSize", "MaximumWeight", "InitialCapacity", "Weigher", "ExpiryCalculator", "RefreshCalculator", "OnDeletion", "OnAtomicDeletion", "StatsRecorder", "Executor", "Clock", "Logger"}
	seen := map[string]bool{}
	var scen []map[string]bool
	add := func(m map[string]bool) {
		var ks []string
		for _, op := range options {
			if m[op] {
				ks = append(ks, op)
			}
		}
		k := strings.Join(ks, ",")
		if !seen[k] {
			seen[k] = true
			c := map[string]bool{}
			for _, op := range ks {
				c[op] = true
			}
			scen = append(scen, c)
		}
	}
	if cx.Tier == "thorough" {
		for bits := 0; bits < 1<<len(options); bits++ {
			m := map[string]bool{}
			for i, op := range options {
				if bits&(1<<i) != 0 {
					m[op] = true
				}
			}
			add(m)
		}
	} else {
		bases := []map[string]bool{
			{},
			{"MaximumSize": true, "InitialCapacity": true, "ExpiryCalculator": true, "RefreshCalculator": true, "OnDeletion": true, "OnAtomicDeletion": true, "StatsRecorder": true, "Executor": true, "Clock": true, "Logger": true},
			{"MaximumWeight": true, "Weigher": true, "ExpiryCalculator": true, "StatsRecorder": true},
		}
		groups := [][]string{{"MaximumSize", "MaximumWeight", "Weigher"}, {"ExpiryCalculator", "RefreshCalculator", "Clock"}, {"Executor", "StatsRecorder", "ExpiryCalculator"}}
		for _, b := range bases {
			add(b)
			for _, op := range options {
				m := map[string]bool{}
				for k, v := range b {
					m[k] = v
				}
				m[op] = !b[op]
				add(m)
			}
			for _, g := range groups {
				for bits := 0; bits < 1<<len(g); bits++ {
					m := map[string]bool{}
					for k, v := range b {
						m[k] = v
					}
					for i, op := range g {
						m[op] = bits&(1<<i) != 0
					}
					add(m)
				}
			}
		}
	}
	a := newAgg(cx, rule, "New", cx.P.Pos(fn.Pos()))
	paths, rejected := 0, 0
	for _, sc := range scen {
		sc := sc
		ps := newPathSum(cx)
		ps.decide = func(atom string) (bool, bool) { return cfgDecide(sc, atom) }
		ps.alsoRelevant = []string{"okassert(", "assert("}
		outs := ps.Run(fn, nil)
		if ps.capped {
			cx.R.Undecided(rule, "New", "scenario", cx.P.Pos(fn.Pos()), "path bound reached")
			continue
		}
		for _, o := range outs {
			if o.Cut || o.Panic {
				continue
			}
			rej := false
			for _, e := range o.S.trace {
				if e.Kind == "Call" && len(e.Args) > 0 && e.Args[0] == "errors.New" {
					rej = true
				}
			}
			if rej {
				rejected++
				continue
			}
			paths++
			cfgAssign = sc
			checkConfigPath(a, o)
		}
	}
	a.flush()
	// the default weigher of an unweighted cache counts every entry as 1 (the size bound is a number of entries)
	for _, f := range cx.P.FuncsOfPkg("") {
		if f.Parent() == nil || f.Signature.Results().Len() != 1 || len(f.Params) != 2 {
			continue
		}
		if b, ok := f.Signature.Results().At(0).Type().Underlying().(*types.Basic); !ok || b.Kind() != types.Uint32 {
			continue
		}
		if p := f.Parent(); p.Signature.Recv() == nil || namedTypeName(derefType(p.Signature.Recv().Type())) != "Options" {
			continue
		}
		one, nr := true, 0
		allInstrs(f, func(in ssa.Instruction) {
			if r, ok := in.(*ssa.Return); ok && len(r.Results) == 1 {
				nr++
				if k, isK := constUint(r.Results[0]); !isK || k != 1 {
					one = false
				}
			}
		})
		cx.R.Check(one && nr > 0, rule, funcName(f), "default weigher returns 1", cx.P.Pos(f.Pos()), "without a weigher every entry weighs 1")
	}
	cx.R.AddInt("config_scenarios", len(scen))
	cx.R.AddInt("config_paths", paths)
	cx.R.AddInt("config_rejected_by_validate", rejected)
	cx.R.Check(paths >= 20, rule, "New", "constructing paths enumerated", cx.P.Pos(fn.Pos()), fmt.Sprintf("%d paths over %d scenarios (%d rejected by validate)", paths, len(scen), rejected))
}

func checkConfigPath(a *agg, o *psOutcome) {
	// the cache literal: the complit with most stores
	stores := map[string]map[string]string{}
	for _, e := range o.S.trace {
		if e.Kind != "LitStore" || len(e.Args) != 2 {
			continue
		}
		i := strings.LastIndex(e.Args[0], ".")
		if i < 0 {
			continue
		}
		lit, f := e.Args[0][:i], e.Args[0][i+1:]
		if stores[lit] == nil {
			stores[lit] = map[string]string{}
		}
		stores[lit][f] = e.Args[1]
	}
	var c map[string]string
	for _, m := range stores {
		if _, ok := m["hasDefaultExecutor"]; ok || (c == nil && m["withMaintenance"] != "") {
			c = m
		}
	}
	if os.Getenv("OTTERLINT_CFGDBG") != "" {
		var ks []string
		for k, v := range c {
			ks = append(ks, k+"="+v)
		}
		sort.Strings(ks)
		fmt.Fprintln(os.Stderr, "CFG", strings.Join(ks, " | "))
		for _, e := range o.S.trace {
			if e.Kind != "LitStore" {
				fmt.Fprintln(os.Stderr, "   ", e.String())
			}
		}
	}
	if c == nil {
		a.check("cache literal found", false, "the constructor builds the cache", "no store of the executor flag on this path", o)
		return
	}
	flag := func(name string) (bool, bool) { return evalBoolTerm(o, c[name]) }
	has := func(kind string, argSub string) bool {
		for _, e := range o.S.trace {
			if e.Kind == kind && (argSub == "" || strings.Contains(strings.Join(e.Args, ","), argSub)) {
				return true
			}
		}
		return false
	}
	nonNil := func(t string) (bool, bool) {
		if strings.HasPrefix(t, "&") || strings.HasPrefix(t, "func:") || strings.HasPrefix(t, "res:") {
			return true, true
		}
		if t == "nil" || t == "" {
			return false, true
		}
		v, ok := lookupPred(o.S, "IsNil("+t+")")
		if !ok {
			v, ok = cfgDecide(cfgAssign, "IsNil("+t+")")
		}
		return !v, ok
	}
	// feature flags and the objects they announce
	for _, p := range [][2]string{{"withExpiration", "expiryCalculator"}, {"withRefresh", "refreshCalculator"}} {
		fv, fk := flag(p[0])
		nn, nk := nonNil(c[p[1]])
		a.check(p[0]+" <=> "+p[1]+" configured", fk && nk && fv == nn, "the feature flag is true exactly when the calculator stored in the cache is non-nil", fmt.Sprintf("%s=%s, %s=%s", p[0], c[p[0]], p[1], c[p[1]]), o)
		opt := "load(param:o." + strings.ToUpper(p[1][:1]) + p[1][1:] + ")"
		a.check(p[1]+" is the user's", c[p[1]] == opt, "the calculator stored is the one from the options", c[p[1]], o)
	}
	we, k1 := flag("withExpiration")
	wr, k2 := flag("withRefresh")
	wv, k3 := flag("withEviction")
	wt, k4 := flag("withTime")
	wm, k5 := flag("withMaintenance")
	a.check("withTime = withExpiration || withRefresh", k1 && k2 && k4 && wt == (we || wr), "deadlines are computed exactly when a calculator is configured", fmt.Sprintf("%v %v %v", c["withTime"], c["withExpiration"], c["withRefresh"]), o)
	a.check("withMaintenance = withEviction || withExpiration", k1 && k3 && k5 && wm == (wv || we), "writes are replayed exactly when a policy exists", fmt.Sprintf("%v %v %v", c["withMaintenance"], c["withEviction"], c["withExpiration"]), o)
	// the maximum
	ms, mw := cfgAssign["MaximumSize"], cfgAssign["MaximumWeight"]
	if k3 {
		a.check("withEviction <=> a maximum is configured", wv == (ms || mw), "a size bound exists exactly when MaximumSize or MaximumWeight is positive", c["withEviction"], o)
		want := ""
		if ms {
			want = "load(param:o.MaximumSize)"
		} else if mw {
			want = "load(param:o.MaximumWeight)"
		}
		got := ""
		for _, e := range o.S.trace {
			if e.Kind == "SetMaximumSize" && len(e.Args) > 0 {
				got = e.Args[0]
			}
		}
		a.check("the policy gets the configured maximum", got == want, "SetMaximum is called with the configured maximum exactly when a size bound exists", "got "+got+" want "+want, o)
		_, hasPol := c["evictionPolicy"]
		a.check("eviction policy exists <=> withEviction", hasPol == wv, "the policy object is created under its flag", fmt.Sprint(hasPol), o)
	}
	iw, k6 := flag("isWeighted")
	a.check("isWeighted <=> MaximumWeight configured", k6 && iw == mw, "entries are weighed exactly for a weight bound", c["isWeighted"], o)
	// executor
	de, k7 := flag("hasDefaultExecutor")
	isDef := c["executor"] == "load(global:defaultExecutor)"
	a.check("hasDefaultExecutor <=> the default executor is stored", k7 && de == isDef, "the flag that decides whether maintenance is re-scheduled tells the truth about the executor", fmt.Sprintf("flag %s executor %s", c["hasDefaultExecutor"], c["executor"]), o)
	if !isDef {
		a.check("executor is the user's", c["executor"] == "load(param:o.Executor)", "a configured executor is the one used", c["executor"], o)
	} else {
		a.check("default executor only without a configured one", !cfgAssign["Executor"], "the default executor is used only when none is configured", c["executor"], o)
	}
	// handlers, weigher, recorder
	for _, p := range [][2]string{{"onDeletion", "OnDeletion"}, {"onAtomicDeletion", "OnAtomicDeletion"}} {
		a.check(p[0]+" is the user's", c[p[0]] == "load(param:o."+p[1]+")", "the deletion handler stored is the one from the options", c[p[0]], o)
	}
	if cfgAssign["Weigher"] {
		a.check("weigher is the user's", c["weigher"] == "load(param:o.Weigher)", "a configured weigher is the one used", c["weigher"], o)
	}
	ws, k8 := flag("withStats")
	if k8 && ws {
		a.check("recorder is the user's", c["stats"] == "load(param:o.StatsRecorder)", "with statistics enabled the recorder stored is the one from the options", c["stats"], o)
	}
	if !cfgAssign["StatsRecorder"] {
		a.check("no recorder => withStats false", k8 && !ws, "statistics are off without a recorder", c["withStats"], o)
	}
	// objects under their flags
	if k4 {
		a.check("clock initialised <=> withTime", has("Invoke", "Init") == wt, "the time source is initialised exactly when deadlines are in use", "", o)
	}
	if k1 {
		_, hasWheel := c["expirationPolicy"]
		a.check("timer wheel exists <=> withExpiration", hasWheel == we, "the timer wheel is created under its flag", "", o)
		a.check("janitor started <=> withExpiration", has("Go", "periodicCleanUp") == we, "the periodic clean-up goroutine runs exactly for expiring caches", "", o)
	}
	if k5 {
		_, rb := c["readBuffer"]
		_, wb := c["writeBuffer"]
		a.check("buffers exist <=> withMaintenance", rb == wm && wb == wm, "read and write buffers are created under the maintenance flag", "", o)
	}
}

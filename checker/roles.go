package main

import (
	"go/types"
	"strings"

	"golang.org/x/tools/go/ssa"
)

// Anchors resolves the roles the rules talk about by type identity in the loaded program. Nothing here
// names a line or a source fragment; a role that no longer resolves makes the obligation undecided.
type Anchors struct {
	P *Program
}

func resolveAnchors(P *Program) *Anchors { return &Anchors{P: P} }

// need resolves a declared function; when it is gone the rule is undecided (never silently dropped).
func (cx *Ctx) need(rule, pkg, recv, name string) *ssa.Function {
	f := cx.P.Func(pkg, recv, name)
	if f == nil || len(f.Blocks) == 0 {
		r := recv
		if r != "" {
			r += "."
		}
		cx.R.Undecided(rule, pkgLabel(pkg)+r+name, "anchor", "-", "anchored mechanism "+pkgLabel(pkg)+r+name+" does not resolve any more")
		return nil
	}
	return f
}

func (cx *Ctx) needField(rule, pkg, typ, field string) *types.Var {
	v := cx.P.Field(pkg, typ, field)
	if v == nil {
		cx.R.Undecided(rule, pkgLabel(pkg)+typ+"."+field, "anchor", "-", "anchored field "+pkgLabel(pkg)+typ+"."+field+" does not resolve any more")
	}
	return v
}

func pkgLabel(pkg string) string {
	if pkg == "" {
		return ""
	}
	return pkg + "."
}

// ---- role predicates over call instructions ----

// mutexOp reports a sync.Mutex method call (Lock/Unlock/TryLock) on the given struct field.
func mutexOp(in ssa.Instruction, field *types.Var, op string) bool {
	return isStdMethod(in, "sync", "Mutex", op) && sameField(recvField(in), field)
}

// atomicOp reports a sync/atomic typed method call (Load/Store/CompareAndSwap/Add) on the given struct field.
func atomicOp(in ssa.Instruction, field *types.Var, op string) bool {
	return innerAtomic(in, field, op) != nil
}

// innerAtomic returns the atomic operation `op` on `field` that the instruction performs: the instruction itself, or -
// when it calls a straight-line wrapper of the module (func (g *gate) tryBegin() bool { return g.active.CompareAndSwap(
// false, true) }) - the single such operation inside the wrapper, whose result the wrapper returns unchanged.
func innerAtomic(in ssa.Instruction, field *types.Var, op string) ssa.CallInstruction {
	if isStdMethod(in, "sync/atomic", "", op) && sameField(recvField(in), field) {
		return in.(ssa.CallInstruction)
	}
	if field == nil {
		return nil
	}
	c := calleeOf(in)
	if c == nil || c.Pkg == nil || !strings.HasPrefix(c.Pkg.Pkg.Path(), modPath) || len(c.Blocks) != 1 {
		return nil
	}
	var found ssa.CallInstruction
	n, others := 0, 0
	var ret *ssa.Return
	for _, x := range c.Blocks[0].Instrs {
		if r, ok := x.(*ssa.Return); ok {
			ret = r
		}
		if isStdMethod(x, "sync/atomic", "", op) && sameField(recvField(x), field) {
			found = x.(ssa.CallInstruction)
			n++
			continue
		}
		if cc := callCommon(x); cc != nil {
			others++
		}
	}
	if n != 1 || others != 0 || ret == nil {
		return nil
	}
	if fv, ok := found.(ssa.Value); ok && len(ret.Results) == 1 {
		if ret.Results[0] != fv {
			return nil // the wrapper post-processes the result (a predicate): not the plain operation
		}
	} else if len(ret.Results) != 0 {
		return nil
	}
	return found
}

// atomicArgs: the arguments of the atomic operation itself (see innerAtomic).
func atomicArgs(in ssa.Instruction, field *types.Var, op string) []ssa.Value {
	if a := innerAtomic(in, field, op); a != nil {
		return callArgs(a)
	}
	return nil
}

// callsMethodOnField reports a static method call x.<field>.<name>() where the method belongs to the module.
func callOnField(in ssa.Instruction, field *types.Var, target *ssa.Function) bool {
	return isCallTo(in, target) && sameField(recvField(in), field)
}

package main

import (
	"go/types"

	"golang.org/x/tools/go/ssa"
)

// Anchors resolves the roles the rules talk about by type identity in the loaded program. Nothing here
// names a line or a source fragment; a role that no longer resolves makes the obligation undecided.
type Anchors struct {
	P *Program
}

func resolveAnchors(P *Program) *Anchors { return &Anchors{P: P} }

// need resolves a declared function; when it is gone the rule is undecided (never silently dropped).
func (cx *Ctx) need(rule, pkg, recv, name string) *ssa.Function {
	f := cx.P.Func(pkg, recv, name)
	if f == nil || len(f.Blocks) == 0 {
		r := recv
		if r != "" {
			r += "."
		}
		cx.R.Undecided(rule, pkgLabel(pkg)+r+name, "anchor", "-", "anchored mechanism "+pkgLabel(pkg)+r+name+" does not resolve any more")
		return nil
	}
	return f
}

func (cx *Ctx) needField(rule, pkg, typ, field string) *types.Var {
	v := cx.P.Field(pkg, typ, field)
	if v == nil {
		cx.R.Undecided(rule, pkgLabel(pkg)+typ+"."+field, "anchor", "-", "anchored field "+pkgLabel(pkg)+typ+"."+field+" does not resolve any more")
	}
	return v
}

func pkgLabel(pkg string) string {
	if pkg == "" {
		return ""
	}
	return pkg + "."
}

// ---- role predicates over call instructions ----

// mutexOp reports a sync.Mutex method call (Lock/Unlock/TryLock) on the given struct field.
func mutexOp(in ssa.Instruction, field *types.Var, op string) bool {
	return isStdMethod(in, "sync", "Mutex", op) && sameField(recvField(in), field)
}

// atomicOp reports a sync/atomic typed method call (Load/Store/CompareAndSwap/Add) on the given struct field.
func atomicOp(in ssa.Instruction, field *types.Var, op string) bool {
	return isStdMethod(in, "sync/atomic", "", op) && sameField(recvField(in), field)
}

// callsMethodOnField reports a static method call x.<field>.<name>() where the method belongs to the module.
func callOnField(in ssa.Instruction, field *types.Var, target *ssa.Function) bool {
	return isCallTo(in, target) && sameField(recvField(in), field)
}

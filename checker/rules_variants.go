package main

import (
	"fmt"
	"go/constant"
	"go/token"
	"go/types"
	"regexp"
	"sort"
	"strings"

	"golang.org/x/tools/go/ssa"
)

const nodePkg = "internal/generated/node"

type variant struct {
	name     string // BERW
	letters  string // berw
	named    *types.Named
	st       *types.Struct
	create   *ssa.Function
	cast     *ssa.Function
	features map[byte]bool
}

// variantsOf discovers the generated node variants from the manager's switch.
func variantsOf(cx *Ctx, rule string) (map[string]*variant, []string) {
	nm := cx.need(rule, nodePkg, "", "NewManager")
	createF := cx.needField(rule, nodePkg, "Manager", "create")
	fromF := cx.needField(rule, nodePkg, "Manager", "fromPointer")
	if nm == nil || createF == nil || fromF == nil {
		return nil, nil
	}
	out := map[string]*variant{}
	var cases []string
	// each store to m.create / m.fromPointer sits in a block guarded by nodeType == "<letters>"
	allInstrs(nm, func(in ssa.Instruction) {
		st, ok := in.(*ssa.Store)
		if !ok {
			return
		}
		isCreate := sameField(fieldOf(st.Addr), createF)
		isFrom := sameField(fieldOf(st.Addr), fromF)
		if !isCreate && !isFrom {
			return
		}
		letters := ""
		for _, g := range guardsAt(st.Block()) {
			if b, ok := g.Cond.(*ssa.BinOp); ok && b.Op == token.EQL && g.Truth {
				if c, ok := b.Y.(*ssa.Const); ok && c.Value != nil && c.Value.Kind() == constant.String {
					letters = constant.StringVal(c.Value)
				}
			}
		}
		if letters == "" {
			cx.R.Undecided(rule, funcName(nm), "case", cx.P.where(st), "manager assignment outside a string case")
			return
		}
		v := out[letters]
		if v == nil {
			v = &variant{letters: letters, features: map[byte]bool{}}
			for i := 0; i < len(letters); i++ {
				v.features[letters[i]] = true
			}
			out[letters] = v
			cases = append(cases, letters)
		}
		f := closureOf(st.Val)
		if f == nil {
			if fv, ok := stripConv(st.Val).(*ssa.Function); ok {
				f = fv
			}
		}
		if f != nil {
			f = origin(f)
		}
		if isCreate {
			v.create = f
		} else {
			v.cast = f
		}
	})
	for _, v := range out {
		if v.create != nil {
			v.name = strings.TrimPrefix(v.create.Name(), "New")
		}
		if tn, _ := cx.P.Pkg(nodePkg).Scope().Lookup(v.name).(*types.TypeName); tn != nil {
			v.named, _ = tn.Type().(*types.Named)
			if v.named != nil {
				v.st, _ = v.named.Underlying().(*types.Struct)
			}
		}
	}
	sort.Strings(cases)
	return out, cases
}

func hasField(st *types.Struct, name string) bool {
	if st == nil {
		return false
	}
	for i := 0; i < st.NumFields(); i++ {
		if st.Field(i).Name() == name {
			return true
		}
	}
	return false
}

// bodyShape classifies a generated method body: "panic", "const:<v>" or "feature:<normal form>".
func bodyShape(fn *ssa.Function) string {
	if fn == nil || len(fn.Blocks) == 0 {
		return "missing"
	}
	if len(fn.Blocks) == 1 {
		last := fn.Blocks[0].Instrs[len(fn.Blocks[0].Instrs)-1]
		if _, ok := last.(*ssa.Panic); ok {
			return "panic"
		}
		if ret, ok := last.(*ssa.Return); ok {
			if len(ret.Results) == 1 {
				if c, ok := ret.Results[0].(*ssa.Const); ok {
					if c.Value == nil {
						return "const:zero"
					}
					return "const:" + c.Value.ExactString()
				}
			}
		}
	}
	// normal form of results and effects
	tb := newTermBuilder()
	var parts []string
	allInstrs(fn, func(in ssa.Instruction) {
		switch x := in.(type) {
		case *ssa.Return:
			for _, r := range x.Results {
				parts = append(parts, "ret "+shapeTerm(tb, r))
			}
		case *ssa.Store:
			parts = append(parts, "store "+shapeAddr(x.Addr)+" = "+shapeTerm(tb, x.Val))
		case *ssa.Call:
			if c := x.Call.StaticCallee(); c != nil && c.Pkg != nil && c.Pkg.Pkg.Path() == "sync/atomic" {
				parts = append(parts, "atomic "+c.Name()+" "+shapeAddr(x.Call.Args[0]))
			}
		case *ssa.If:
			parts = append(parts, "if "+shapeTerm(tb, x.Cond))
		}
	})
	return "feature:" + strings.Join(parts, "; ")
}

func shapeAddr(v ssa.Value) string {
	if fa, ok := v.(*ssa.FieldAddr); ok {
		return "&." + fieldNameOf(fa.X.Type(), fa.Field)
	}
	return "?"
}

var variantTypeRe = regexp.MustCompile(`\bB[SERW]*\[`)

func shapeTerm(tb *termBuilder, v ssa.Value) string {
	s := tb.of(v).String()
	// receiver-type independent: the variant's own type name is abstracted
	return variantTypeRe.ReplaceAllString(s, "T[")
}

func methodOf(cx *Ctx, v *variant, name string) *ssa.Function {
	if v.named == nil {
		return nil
	}
	for i := 0; i < v.named.NumMethods(); i++ {
		if m := v.named.Method(i); m.Name() == name {
			return cx.P.Prog.FuncValue(m)
		}
	}
	return nil
}

func nodeMethodNames(cx *Ctx) []string {
	pkg := cx.P.Pkg(nodePkg)
	if pkg == nil {
		return nil
	}
	tn, _ := pkg.Scope().Lookup("Node").(*types.TypeName)
	if tn == nil {
		return nil
	}
	it, _ := tn.Type().Underlying().(*types.Interface)
	if it == nil {
		return nil
	}
	var out []string
	for i := 0; i < it.NumMethods(); i++ {
		out = append(out, it.Method(i).Name())
	}
	sort.Strings(out)
	return out
}

// ruleC01Mgr: the variant table is complete and consistent.
func ruleC01Mgr(cx *Ctx) {
	const rule = "C01.mgr"
	cx.R.Rule(rule, 13, "the manager has one case per reachable feature combination, create and fromPointer of a case name the same variant, a variant has exactly the fields of its feature letters, and for every method the body shape (feature body / constant / bare panic) is a function of the feature letters alone, with one feature body shared by all variants that have it")
	vs, cases := variantsOf(cx, rule)
	if vs == nil {
		return
	}
	// (b) reachable combinations: b + [s|w]? + e? + r?  (size and weight bounds are mutually exclusive)
	want := map[string]bool{}
	for _, sw := range []string{"", "s", "w"} {
		for _, e := range []string{"", "e"} {
			for _, r := range []string{"", "r"} {
				l := "b"
				if sw == "s" {
					l += "s"
				}
				l += e + r
				if sw == "w" {
					l += "w"
				}
				want[l] = true
			}
		}
	}
	for l := range want {
		_, ok := vs[l]
		cx.R.Check(ok, rule, "node.NewManager", "case "+l, "-", "a node variant exists for feature combination "+l)
	}
	for _, l := range cases {
		v := vs[l]
		cx.R.Check(want[l], rule, "node.NewManager", "case "+l+" reachable", "-", "case "+l+" corresponds to a reachable configuration")
		okPair := v.create != nil && v.cast != nil && strings.TrimPrefix(v.create.Name(), "New") == strings.TrimPrefix(v.cast.Name(), "CastPointerTo") && strings.ToLower(v.name) == l
		cx.R.Check(okPair, rule, "node.NewManager", "case "+l+" pairing", "-", fmt.Sprintf("create and fromPointer of case %q name the same variant %s", l, v.name))
		// (c) fields
		f := v.features
		chk := func(field string, wantHas bool) {
			cx.R.Check(hasField(v.st, field) == wantHas, rule, "node."+v.name, "field "+field, "-", fmt.Sprintf("variant %s has field %s iff its features require it (%v)", v.name, field, wantHas))
		}
		chk("expiresAt", f['e'])
		chk("prevExp", f['e'])
		chk("nextExp", f['e'])
		chk("refreshableAt", f['r'])
		chk("weight", f['w'])
		chk("prev", f['s'] || f['w'])
		chk("next", f['s'] || f['w'])
		chk("queueType", f['s'] || f['w'])
		chk("state", f['s'] || f['e'] || f['w'])
		chk("key", true)
		chk("value", true)
	}
	// (d) body shape is a function of the features
	for _, m := range nodeMethodNames(cx) {
		shapes := map[string][]string{} // shape -> variants
		for _, l := range cases {
			sh := bodyShape(methodOf(cx, vs[l], m))
			shapes[sh] = append(shapes[sh], l)
		}
		nFeature := 0
		for sh := range shapes {
			if strings.HasPrefix(sh, "feature:") {
				nFeature++
			}
		}
		cx.R.Check(nFeature <= 1 && len(shapes) <= 2, rule, "node.*."+m, "shapes", "-", fmt.Sprintf("method %s has at most one feature body and one default shape across the %d variants (found %d shapes)", m, len(cases), len(shapes)))
		// the split must follow a feature predicate
		if len(shapes) == 2 {
			var groups [][]string
			for _, ls := range shapes {
				groups = append(groups, ls)
			}
			cx.R.Check(splitByFeatures(groups[0], groups[1]), rule, "node.*."+m, "split", "-", fmt.Sprintf("which variants implement %s is decided by their feature letters: %v vs %v", m, groups[0], groups[1]))
		}
	}
}

// splitByFeatures: the two groups are separated by a predicate "has one of letters L" for some set L ⊆ {s,e,r,w}.
func splitByFeatures(a, b []string) bool {
	letters := "serw"
	for mask := 1; mask < 16; mask++ {
		pred := func(l string) bool {
			for i := 0; i < 4; i++ {
				if mask&(1<<i) != 0 && strings.IndexByte(l, letters[i]) >= 0 {
					return true
				}
			}
			return false
		}
		okA, okB := true, true
		for _, l := range a {
			if !pred(l) {
				okA = false
			}
		}
		for _, l := range b {
			if pred(l) {
				okB = false
			}
		}
		if okA && okB {
			return true
		}
		okA, okB = true, true
		for _, l := range a {
			if pred(l) {
				okA = false
			}
		}
		for _, l := range b {
			if !pred(l) {
				okB = false
			}
		}
		if okA && okB {
			return true
		}
	}
	return false
}

// ruleC12Bound: the expiry / freshness predicates have the same boundary in every variant that has the feature.
func ruleC12Bound(cx *Ctx) {
	const rule = "C12.bound"
	cx.R.Rule(rule, 8, "in every node variant with expiration HasExpired(now) is expiresAt <= now (else constant false); with refresh IsFresh(now) is alive && refreshableAt > now (else constant true); the deadline accessors read/write the variant's own atomic fields")
	vs, cases := variantsOf(cx, rule)
	if vs == nil {
		return
	}
	for _, l := range cases {
		v := vs[l]
		he := methodOf(cx, v, "HasExpired")
		fr := methodOf(cx, v, "IsFresh")
		name := "node." + v.name
		if v.features['e'] {
			ok := false
			if he != nil {
				allInstrs(he, func(in ssa.Instruction) {
					if ret, isRet := in.(*ssa.Return); isRet && len(ret.Results) == 1 {
						if b, isB := ret.Results[0].(*ssa.BinOp); isB {
							l, r := b.X, b.Y
							if c, isC := l.(*ssa.Call); isC && c.Call.StaticCallee() != nil && origin(c.Call.StaticCallee()).Name() == "ExpiresAt" && r == ssa.Value(bparam(he, 1)) && b.Op == token.LEQ {
								ok = true
							}
							if c, isC := r.(*ssa.Call); isC && c.Call.StaticCallee() != nil && origin(c.Call.StaticCallee()).Name() == "ExpiresAt" && l == ssa.Value(bparam(he, 1)) && b.Op == token.GEQ {
								ok = true
							}
						}
					}
				})
			}
			cx.R.Check(ok, rule, name, "HasExpired", "-", "HasExpired(now) is ExpiresAt() <= now")
			// ExpiresAt loads the expiresAt field; SetExpiresAt stores it; CAS compares-and-swaps it
			for m, op := range map[string]string{"ExpiresAt": "Load", "SetExpiresAt": "Store", "CASExpiresAt": "CompareAndSwap"} {
				f := methodOf(cx, v, m)
				okm := false
				if f != nil {
					allInstrs(f, func(in ssa.Instruction) {
						if isStdMethod(in, "sync/atomic", "Int64", op) {
							if fv := recvField(in); fv != nil && fname(fv) == "expiresAt" {
								okm = true
							}
						}
					})
				}
				cx.R.Check(okm, rule, name, m, "-", m+" is an atomic "+op+" of the expiresAt field")
			}
		} else {
			cx.R.Check(bodyShape(he) == "const:false", rule, name, "HasExpired", "-", "without expiration HasExpired is constant false")
		}
		if v.features['r'] {
			sh := bodyShape(fr)
			ok := false
			// alive && refreshableAt > now lowers to: if IsAlive() then ret (RefreshableAt() > now) else false
			if fr != nil {
				sawAlive, sawCmp := false, false
				allInstrs(fr, func(in ssa.Instruction) {
					if c, isC := in.(*ssa.Call); isC && c.Call.StaticCallee() != nil && origin(c.Call.StaticCallee()).Name() == "IsAlive" {
						sawAlive = true
					}
					if b, isB := in.(*ssa.BinOp); isB && b.Op == token.GTR && b.Y == ssa.Value(bparam(fr, 1)) {
						if c, isC := b.X.(*ssa.Call); isC && c.Call.StaticCallee() != nil && origin(c.Call.StaticCallee()).Name() == "RefreshableAt" {
							sawCmp = true
						}
					}
				})
				ok = sawAlive && sawCmp
			}
			cx.R.Check(ok, rule, name, "IsFresh", "-", "IsFresh(now) is IsAlive() && RefreshableAt() > now ("+trunc(sh, 60)+")")
			for m, op := range map[string]string{"RefreshableAt": "Load", "SetRefreshableAt": "Store"} {
				f := methodOf(cx, v, m)
				okm := false
				if f != nil {
					allInstrs(f, func(in ssa.Instruction) {
						if isStdMethod(in, "sync/atomic", "Int64", op) {
							if fv := recvField(in); fv != nil && fname(fv) == "refreshableAt" {
								okm = true
							}
						}
					})
				}
				cx.R.Check(okm, rule, name, m, "-", m+" is an atomic "+op+" of the refreshableAt field")
			}
		} else {
			cx.R.Check(bodyShape(fr) == "const:true", rule, name, "IsFresh", "-", "without refresh IsFresh is constant true")
		}
	}
}

func trunc(s string, n int) string {
	if len(s) > n {
		return s[:n] + "…"
	}
	return s
}

// ruleC02Immut: key, value and weight of every variant are written only by its constructor; the state/deadline
// fields are atomic; link and queue fields are plain and therefore covered by C05.lockctx.
func ruleC02Immut(cx *Ctx) {
	const rule = "C02.immut"
	cx.R.Rule(rule, 8, "key, value and weight of every node variant are stored only in its constructor; state and deadlines are sync/atomic typed")
	vs, cases := variantsOf(cx, rule)
	if vs == nil {
		return
	}
	for _, l := range cases {
		v := vs[l]
		if v.st == nil {
			continue
		}
		for i := 0; i < v.st.NumFields(); i++ {
			f := v.st.Field(i)
			switch fname(f) {
			case "key", "value", "weight":
				bad := ""
				for _, fn := range cx.P.ModuleFuncs() {
					allInstrs(fn, func(in ssa.Instruction) {
						if st, ok := in.(*ssa.Store); ok && sameField(fieldOf(st.Addr), f) && origin(fn) != v.create {
							bad = funcName(fn)
						}
					})
				}
				cx.R.Check(bad == "", rule, "node."+v.name, "field "+fname(f)+" immutable", "-", "written only by the constructor "+bad)
			case "state", "expiresAt", "refreshableAt":
				tn := namedTypeName(f.Type())
				cx.R.Check(strings.HasPrefix(f.Type().String(), "sync/atomic."), rule, "node."+v.name, "field "+fname(f)+" atomic", "-", "concurrently accessed field is sync/atomic typed ("+tn+")")
			}
		}
	}
}

// ruleC12Sites: who writes deadlines.
func ruleC12Sites(cx *Ctx) {
	const rule = "C12.sites"
	cx.R.Rule(rule, 1, "no deadline store is reachable from the operations that neither write nor read an entry for the user (quiet reads, removals, maintenance, iteration, size queries); xmath.SaturatedAdd clamps on overflow")
	// a census by reachability, not by the name of the function that happens to contain the store: the operations that
	// neither write nor read an entry for the user (quiet reads, removals, maintenance, iteration, size queries) reach no
	// deadline store; what the writing operations store is decided by C12.hook / C12.sat on their path summaries
	isSetter := func(in ssa.Instruction) bool {
		n := invokeName(in)
		if n != "SetExpiresAt" && n != "CASExpiresAt" && n != "SetRefreshableAt" && n != "CASRefreshableAt" {
			return false
		}
		return isNodeIface(namedTypeName(callCommon(in).Value.Type()))
	}
	nw := 0
	for _, fn := range cx.P.ModuleFuncs() {
		if fn.Pkg != nil && strings.HasSuffix(fn.Pkg.Pkg.Path(), nodePkg) {
			continue
		}
		allInstrs(fn, func(in ssa.Instruction) {
			if isSetter(in) {
				nw++
			}
		})
	}
	cx.R.Check(nw >= 3, rule, "cache", "deadline stores found", "-", fmt.Sprintf("%d", nw))
	lockOrderProg = cx.P
	// the quiet read shares its lookup helper with the counted reads (a flag decides): decided on its path summaries
	if r := cx.runOp(rule, opSpec{"GetEntryQuietly", "cache", "GetEntryQuietly", nil, "getEntryQuietly", nil}); r != nil {
		a := newAgg(cx, rule, funcName(r.fn), cx.P.Pos(r.fn.Pos()))
		for _, o := range r.outs {
			if o.Cut {
				continue
			}
			n := len(allEvents(o, "SetExpiresAt")) + len(allEvents(o, "CASExpiresAt")) + len(allEvents(o, "SetRefreshableAt")) + len(allEvents(o, "CASRefreshableAt"))
			a.check("reaches no deadline store", n == 0, "a quiet read never moves a deadline", fmt.Sprintf("%d store(s)", n), o)
		}
		a.flush()
	}
	quiet := []string{"Invalidate", "InvalidateAll", "CleanUp", "maintenance", "evictNode", "runTask", "SetMaximum", "GetMaximum", "WeightedSize", "EstimatedSize", "All", "Keys", "Values", "Hottest", "Coldest", "Stats", "periodicCleanUp"}
	for _, m := range quiet {
		fn := cx.P.Func("", "cache", m)
		if fn == nil {
			continue
		}
		bad, where := reachesInstr(fn, isSetter, map[*ssa.Function]bool{}, nil)
		cx.R.Check(!bad, rule, "(*cache)."+m, "reaches no deadline store", cx.P.Pos(fn.Pos()), "an operation that neither writes nor reads an entry for the user never moves a deadline "+where)
	}
	// SaturatedAdd: returns MaxInt64 on the overflow edge
	sa := cx.need(rule, "internal/xmath", "", "SaturatedAdd")
	if sa == nil {
		return
	}
	// the function as a decision list over the two wrap tests P = (a+b < a), Q = (a+b < b): MaxInt64 exactly when P or Q
	okMax, okSum := false, false
	detail := ""
	paths, bad := symRun(sa, []*Term{tVar("param0"), tVar("param1")}, 200)
	if bad != "" {
		detail = "(" + bad + ")"
	} else if len(sa.Params) == 2 {
		sum := mk("+", tVar("param0"), tVar("param1")).String()
		okMax, okSum = true, true
		sawMax, sawSum := false, false
		for _, p := range paths {
			// atoms decided on this path: index 0 = P, 1 = Q; value +1 true, -1 false, 0 undecided
			var dec [2]int
			okPath := len(p.Rets) == 1
			for _, c := range p.Conds {
				if len(c.T.Args) != 2 {
					okPath = false
					continue
				}
				l, r, op, truth := c.T.Args[0].String(), c.T.Args[1].String(), c.T.Op, c.Truth
				if r == sum { // X op s  ==  s op' X
					l, r = r, l
					op = map[string]string{"<": ">", ">": "<", "<=": ">=", ">=": "<="}[op]
				}
				if l != sum || (op != "<" && op != ">=") || (r != "param0" && r != "param1") {
					okPath = false
					continue
				}
				if op == ">=" {
					truth = !truth
				}
				k := 0
				if r == "param1" {
					k = 1
				}
				if truth {
					dec[k] = 1
				} else {
					dec[k] = -1
				}
			}
			if !okPath {
				okMax, okSum = false, false
				detail = "(a path tests something else than a+b < a, a+b < b)"
				continue
			}
			isMax := p.Rets[0].isConst() && p.Rets[0].C == 9223372036854775807
			isSum := p.Rets[0].String() == sum
			switch {
			case dec[0] == 1 || dec[1] == 1: // wrapped for sure
				okMax = okMax && isMax
				sawMax = true
			case dec[0] == -1 && dec[1] == -1: // not wrapped for sure
				okSum = okSum && isSum
				sawSum = true
			default: // the path covers wrapped and unwrapped sums alike
				okMax, okSum = false, false
				detail = "(a result is chosen before both wrap tests are made)"
			}
		}
		okMax, okSum = okMax && sawMax, okSum && sawSum
	}
	cx.R.Check(okMax && okSum, "C12.satfn", funcName(sa), "clamp", cx.P.Pos(sa.Pos()), "SaturatedAdd returns a+b, or MaxInt64 on the wrapped-sum edge "+detail)
}

// ruleC12Apply: the deadline stores are conditional only on the documented no-op tests.
func ruleC12Apply(cx *Ctx) {
	const rule = "C12.apply"
	cx.R.Rule(rule, 1, "a computed deadline is stored unless the duration is non-positive or unchanged: the only tests guarding a deadline store are configuration flags, duration sign, duration change, predecessor nil/expiry and load-record fields - no other condition may suppress the update")
	for _, fn := range cx.P.FuncsOfPkg("") {
		allInstrs(fn, func(in ssa.Instruction) {
			n := invokeName(in)
			if n != "SetExpiresAt" && n != "CASExpiresAt" && n != "SetRefreshableAt" && n != "CASRefreshableAt" {
				return
			}
			bad := ""
			for _, g := range guardsAt(in.Block()) {
				if !allowedDeadlineGuard(g.Cond) {
					bad = newTermBuilder().of(g.Cond).String() + " at " + cx.P.where(g.If)
				}
			}
			cx.R.Check(bad == "", rule, funcName(fn), n+" guards", cx.P.where(in), "the deadline store is suppressed only by the documented tests "+bad)
		})
	}
}

func allowedDeadlineGuard(c ssa.Value) bool {
	switch x := c.(type) {
	case *ssa.UnOp:
		// flag or record-field load
		if f := fieldOf(x); f != nil {
			switch fname(f) {
			case "withExpiration", "withRefresh", "isRefresh", "isNotFound":
				return true
			}
		}
		return false
	case *ssa.Call:
		n := invokeName(x)
		if n == "HasExpired" {
			return true
		}
		// a named predicate: a pure boolean helper of the module every test of which is a documented test
		if h := x.Call.StaticCallee(); h != nil && !x.Call.IsInvoke() {
			return pureDeadlinePredicate(origin(h))
		}
		return false
	case *ssa.BinOp:
		if _, _, ok := nilCmp(x); ok {
			return true
		}
		isDur := func(v ssa.Value) bool {
			v = stripConv(v)
			switch y := v.(type) {
			case *ssa.Parameter:
				return namedTypeName(y.Type()) == "Duration"
			case *ssa.Call:
				if y.Call.IsInvoke() {
					it := namedTypeName(y.Call.Value.Type())
					return it == "ExpiryCalculator" || it == "RefreshCalculator"
				}
				if c := y.Call.StaticCallee(); c != nil {
					switch origin(c).Name() {
					case "ExpiresAfter", "RefreshableAfter", "Abs":
						return true
					}
				}
			case *ssa.Phi:
				for _, e := range y.Edges {
					if c, ok := e.(*ssa.Call); ok && c.Call.IsInvoke() {
						return true
					}
				}
				// an absolute difference written out: phi(a-b, -(a-b))
				abs := len(y.Edges) > 0
				for _, e := range y.Edges {
					e = stripConv(e)
					if u, ok := e.(*ssa.UnOp); ok && u.Op == token.SUB {
						e = stripConv(u.X)
					}
					if b, ok := e.(*ssa.BinOp); !ok || b.Op != token.SUB {
						abs = false
					}
				}
				if abs {
					return true
				}
			case *ssa.BinOp:
				return y.Op == token.SUB
			}
			return namedTypeName(v.Type()) == "Duration"
		}
		if k, ok := constInt(x.Y); ok && k == 0 && isDur(x.X) {
			return true
		}
		if isDur(x.X) && isDur(x.Y) && (x.Op == token.NEQ || x.Op == token.EQL) {
			return true
		}
		// interface identity of nodes (old != n)
		if isNodeType(x.X.Type()) && isNodeType(x.Y.Type()) {
			return true
		}
	case *ssa.Phi:
		// a condition hoisted into a variable (x := a && b && c): every conjunct / disjunct is a documented test
		if bt, ok := x.Type().Underlying().(*types.Basic); !ok || bt.Kind() != types.Bool {
			return false
		}
		return allowedBoolPhi(x, 0)
	}
	return false
}

// pureDeadlinePredicate: h is a side-effect-free boolean function of the module whose branch conditions and results are
// all documented tests (or constants).
var predBusy = map[*ssa.Function]bool{}

func pureDeadlinePredicate(h *ssa.Function) bool {
	if h == nil || predBusy[h] {
		return false
	}
	predBusy[h] = true
	defer delete(predBusy, h)
	if h.Pkg == nil || !strings.HasPrefix(h.Pkg.Pkg.Path(), modPath) || len(h.Blocks) == 0 || len(h.Blocks) > 12 {
		return false
	}
	if rs := h.Signature.Results(); rs.Len() != 1 {
		return false
	} else if bt, ok := rs.At(0).Type().Underlying().(*types.Basic); !ok || bt.Kind() != types.Bool {
		return false
	}
	ok := true
	allInstrs(h, func(in ssa.Instruction) {
		switch y := in.(type) {
		case *ssa.Store, *ssa.MapUpdate, *ssa.Send, *ssa.Go, *ssa.Defer, *ssa.Panic:
			ok = false
		case *ssa.Call:
			if !allowedDeadlineGuard(y) && !isDurationAccessor(y) {
				ok = false
			}
		case *ssa.If:
			if c, _ := stripNot(y.Cond); !allowedDeadlineGuard(c) {
				ok = false
			}
		case *ssa.Return:
			if _, isConst := y.Results[0].(*ssa.Const); !isConst {
				if c, _ := stripNot(y.Results[0]); !allowedDeadlineGuard(c) {
					ok = false
				}
			}
		}
	})
	return ok
}

func isDurationAccessor(c *ssa.Call) bool {
	if f := c.Call.StaticCallee(); f != nil {
		switch origin(f).Name() {
		case "ExpiresAfter", "RefreshableAfter", "Abs":
			return true
		}
	}
	return false
}

func allowedBoolPhi(ph *ssa.Phi, depth int) bool {
	if depth > 3 {
		return false
	}
	for i, e := range ph.Edges {
		if _, isConst := e.(*ssa.Const); !isConst {
			if inner, isPhi := e.(*ssa.Phi); isPhi {
				if !allowedBoolPhi(inner, depth+1) {
					return false
				}
			} else if c, neg := stripNot(e); !allowedDeadlineGuard(c) {
				_ = neg
				return false
			}
		}
		// the test that selected this edge
		pred := ph.Block().Preds[i]
		if ifi, ok := pred.Instrs[len(pred.Instrs)-1].(*ssa.If); ok {
			c, _ := stripNot(ifi.Cond)
			if inner, isPhi := c.(*ssa.Phi); isPhi {
				if !allowedBoolPhi(inner, depth+1) {
					return false
				}
			} else if !allowedDeadlineGuard(c) {
				return false
			}
		}
	}
	return true
}

package main

import (
	"fmt"
	"go/token"
	"go/types"
	"os"
	"strings"

	"golang.org/x/tools/go/ssa"
)

// ruleC14Transitions: the set of drain-status transitions is closed.
//
// The wake-up protocol is a small state machine over idle / required / processingToIdle / processingToRequired; every
// participant relies on the others making only the known moves. A new move - withdrawing a request (required -> idle),
// restoring a status read earlier (a store of a non-constant) - makes a writer's "a drain is requested / running"
// belief false and its event sits in the buffer with the status idle.
func ruleC14Transitions(cx *Ctx) {
	const rule = "C14.transitions"
	cx.R.Rule(rule, 4, "every write of the drain status in the module is one of the protocol's moves: Store(processingToIdle), Store(required), Store(processingToRequired), CAS(processingToIdle->idle), CAS(idle->required), CAS(processingToIdle->processingToRequired) - with constant operands")
	ds := cx.needField(rule, "", "cache", "drainStatus")
	st := cx.status(rule)
	if ds == nil || !st.ok {
		return
	}
	names := map[int64]string{st.idle: "idle", st.required: "required", st.pToIdle: "processingToIdle", st.pToRequired: "processingToRequired"}
	allowedStore := map[int64]bool{st.pToIdle: true, st.required: true, st.pToRequired: true}
	allowedCAS := map[[2]int64]bool{{st.pToIdle, st.idle}: true, {st.idle, st.required}: true, {st.pToIdle, st.pToRequired}: true}
	for _, fn := range cx.P.ModuleFuncs() {
		name := funcName(fn)
		n := 0
		allInstrs(fn, func(in ssa.Instruction) {
			if _, isCall := in.(ssa.CallInstruction); !isCall {
				return
			}
			if atomicOp(in, ds, "Store") {
				n++
				a := atomicArgs(in, ds, "Store")
				k, isK := int64(0), false
				if len(a) == 1 {
					k, isK = constInt(a[0])
				}
				// the two processing states exist only inside a maintenance run (which resolves them at its end): the code
				// that stores the drain-cap marker is maintenance or something only maintenance calls. Stored from anywhere else
				// nothing ever resolves it - writers read it as "a drain is running" and never schedule one
				if isK && k == st.pToRequired {
					if maint := cx.P.Func("", "cache", "maintenance"); maint != nil {
						cx.R.Check(onlyWithin(cx, outermost(fn), maint, 0), rule, name, fmt.Sprintf("store#%d only inside a maintenance run", n), cx.P.where(in), "processingToRequired is stored only by maintenance or code reached only from it")
					}
				}
				cx.R.Check(isK && allowedStore[k], rule, name, fmt.Sprintf("store#%d", n), cx.P.where(in), "the status is stored only as processingToIdle (a run begins), required (a run ends with work left) or processingToRequired (the drain cap): a constant, never a value read earlier"+map[bool]string{true: " (stores " + names[k] + ")", false: ""}[isK])
			}
			if atomicOp(in, ds, "CompareAndSwap") {
				n++
				a := atomicArgs(in, ds, "CompareAndSwap")
				ok := false
				what := ""
				if len(a) == 2 {
					o, ok1 := constInt(a[0])
					nw, ok2 := constInt(a[1])
					ok = ok1 && ok2 && allowedCAS[[2]int64{o, nw}]
					if ok1 && ok2 {
						what = " (" + names[o] + " -> " + names[nw] + ")"
					}
				}
				cx.R.Check(ok, rule, name, fmt.Sprintf("cas#%d", n), cx.P.where(in), "a CAS on the status is one of processingToIdle->idle, idle->required, processingToIdle->processingToRequired"+what)
			}
		})
	}
}

// ruleC15Scan: the lock-free lookup examines every candidate slot.
//
// Between a writer's meta store and its node store a slot with a matching fingerprint holds nil. Such a slot is skipped;
// if it ended the scan, a key that sits in a later slot (inserted long ago, never removed) would be reported absent.
func ruleC15Scan(cx *Ctx) {
	const rule = "C15.scan"
	cx.R.Rule(rule, 1, "in hashmap.Map.Get no loop is left on the nil test of a loaded slot pointer: a candidate slot that is (still) empty is skipped, the scan goes on with the next candidate and the next bucket of the chain")
	fn := cx.need(rule, hmPkg, "Map", "Get")
	if fn == nil {
		return
	}
	name := funcName(fn)
	loads := map[ssa.Value]bool{}
	for _, a := range nodeSlotAccesses(cx, fn) {
		if !a.write {
			if v, ok := a.in.(ssa.Value); ok {
				loads[v] = true
			}
		}
	}
	cx.R.Check(len(loads) > 0, rule, name, "slot loads", cx.P.Pos(fn.Pos()), "Get loads node slots")
	isNilTest := func(cond ssa.Value) bool {
		c, _ := stripNot(cond)
		b, ok := c.(*ssa.BinOp)
		if !ok {
			return false
		}
		x, _, isNil := nilCmp(b)
		return isNil && loads[x]
	}
	n := 0
	for h := range loopHeaders(fn) {
		loop := naturalLoop(h)
		for b := range loop {
			i, isIf := b.Instrs[len(b.Instrs)-1].(*ssa.If)
			if !isIf || !isNilTest(i.Cond) {
				continue
			}
			n++
			ok := true
			for _, s := range b.Succs {
				if !loop[s] {
					ok = false
				}
			}
			cx.R.Check(ok, rule, name, fmt.Sprintf("empty candidate #%d", n), cx.P.where(i), "an empty candidate slot does not end the scan of the bucket (chain)")
		}
	}
}

// ruleIterContinue: a filtered-out node does not end an iteration.
func ruleIterContinue(cx *Ctx) {
	const rule = "C15.itercont"
	cx.R.Rule(rule, 1, "the function cache.nodes hands to hashmap.Range returns false only when the consumer asked to stop: every value it returns is the constant true or the result of calling yield - skipping a dead or expired node continues the iteration")
	fn := cx.P.Func("", "cache", "nodes")
	rng := cx.need(rule, hmPkg, "Map", "Range")
	hmF := cx.needField(rule, "", "cache", "hashmap")
	if rng == nil || hmF == nil {
		return
	}
	if fn == nil {
		fn = rng // only used to name the obligation when the node iterator has no function of its own any more
	}
	n := 0
	// every walk over the main table, wherever it is written (the node iterator, a callback-style forEach helper, a
	// visitor method): the callback handed to Range
	bodies := cx.P.FuncsOfPkg("")
	for _, f := range bodies {
		allInstrs(f, func(in ssa.Instruction) {
			if !isCallTo(in, rng) || !sameField(recvField(in), hmF) {
				return
			}
			a := callArgs(in)
			if len(a) != 1 {
				return
			}
			cb := closureOf(a[0])
			if cb == nil {
				if bm := boundMethod(a[0]); bm != nil {
					cb = origin(bm)
				}
			}
			if cb == nil {
				return
			}
			// the consumer: calls of a function-typed free variable / parameter of the enclosing iterator closure
			var fromYield func(v ssa.Value, d int) bool
			fromYield = func(v ssa.Value, d int) bool {
				if d > 4 {
					return false
				}
				switch x := v.(type) {
				case *ssa.Const:
					b, ok := constBool(x)
					return ok && b
				case *ssa.Call:
					if x.Call.IsInvoke() || x.Call.StaticCallee() != nil {
						// a helper of the module that itself returns only true / yield results
						if g := calleeOf(x); g != nil && g.Pkg != nil && strings.HasPrefix(g.Pkg.Pkg.Path(), modPath) {
							ok := true
							allInstrs(origin(g), func(y ssa.Instruction) {
								if r, isR := y.(*ssa.Return); isR && len(r.Results) == 1 && !fromYield(r.Results[0], d+1) {
									ok = false
								}
							})
							return ok
						}
						return false
					}
					_, isSig := x.Call.Value.Type().Underlying().(*types.Signature)
					return isSig
				case *ssa.Phi:
					for _, e := range x.Edges {
						if !fromYield(e, d+1) {
							return false
						}
					}
					return true
				}
				return false
			}
			allInstrs(cb, func(y ssa.Instruction) {
				r, isR := y.(*ssa.Return)
				if !isR || len(r.Results) != 1 {
					return
				}
				n++
				cx.R.Check(fromYield(r.Results[0], 0), rule, funcName(cb), fmt.Sprintf("return#%d", n), cx.P.where(r), "the Range callback of the node iterator returns true, or what the consumer returned: a skipped node never stops the iteration")
			})
		})
	}
	if n == 0 {
		cx.R.Violate(rule, funcName(fn), "range callback", cx.P.Pos(fn.Pos()), "NOT SATISFIED: cache.nodes no longer ranges over the table with a callback")
	}
}

// ruleC16InvalidateOrder: InvalidateAll applies the queued write events before it deletes nodes directly.
func ruleC16InvalidateOrder(cx *Ctx) {
	const rule = "C16.invorder"
	cx.R.Rule(rule, 1, "InvalidateAll replays the queued write events (pops the write buffer) before the sweep in which it deletes nodes and runs their delete tasks directly: a direct delete must not overtake a queued add/update of the same node")
	fn := cx.need(rule, "", "cache", "InvalidateAll")
	tryPop := cx.need(rule, queuePkg, "MPSC", "TryPop")
	dnm := cx.need(rule, "", "cache", "deleteNodeFromMap")
	maint := cx.P.Func("", "cache", "maintenance")
	rt := cx.P.Func("", "cache", "runTask")
	if fn == nil || tryPop == nil || dnm == nil {
		return
	}
	steps := func(what func(ssa.Instruction) bool, skipMaintenance bool) []ssa.Instruction {
		var out []ssa.Instruction
		allInstrs(fn, func(in ssa.Instruction) {
			if what(in) {
				out = append(out, in)
				return
			}
			if c := calleeOf(in); c != nil && c.Pkg != nil && c.Pkg.Pkg.Path() == modPath && cname(c) != "Invalidate" {
				// (a step that may run a whole maintenance cycle is in order by itself: C16.order)
				if maint != nil && skipMaintenance {
					if m, _ := reachesInstr(c, func(x ssa.Instruction) bool { return isCallTo(x, maint) }, map[*ssa.Function]bool{}, nil); m {
						return
					}
				}
				// (replaying a queued task may itself evict: that is the replay, not a direct delete)
				seen := map[*ssa.Function]bool{}
				if rt != nil {
					if origin(c) == origin(rt) {
						return
					}
					seen[origin(rt)] = true
				}
				if ok, _ := reachesInstr(c, what, seen, nil); ok {
					out = append(out, in)
				}
			}
		})
		return out
	}
	pops := steps(func(in ssa.Instruction) bool { return isCallTo(in, tryPop) }, true)
	dels := steps(func(in ssa.Instruction) bool { return isCallTo(in, dnm) }, false)
	ok := len(pops) > 0 && len(dels) > 0
	for _, d := range dels {
		for _, p := range pops {
			if p == d {
				continue
			}
			if canReach(d, p) && !sameLoop(d, p) {
				ok = false
			}
		}
		reached := false
		for _, p := range pops {
			if p != d && canReach(p, d) {
				reached = true
			}
		}
		if !reached {
			ok = false
		}
	}
	if os.Getenv("OTTERLINT_TRACE") != "" {
		for _, p := range pops {
			fmt.Fprintln(os.Stderr, "pop step:", cx.P.where(p), p)
		}
		for _, d := range dels {
			fmt.Fprintln(os.Stderr, "del step:", cx.P.where(d), d)
		}
	}
	cx.R.Check(ok, rule, funcName(fn), "drain ≺ direct deletes", cx.P.Pos(fn.Pos()), "the write buffer is drained before nodes are deleted directly, and not after")
}

func sameLoop(a, b ssa.Instruction) bool {
	fn := a.Parent()
	for h := range loopHeaders(fn) {
		l := naturalLoop(h)
		if l[a.Block()] && l[b.Block()] {
			return true
		}
	}
	return false
}

// ruleC18Hash: equal keys hash equally.
func ruleC18Hash(cx *Ctx) {
	const rule = "C18.hash"
	cx.R.Rule(rule, 2, "the sketch derives a key's counters only from Hasher.Hash(key), and Hasher.Hash returns maphash.Comparable(seed, key) on every path (the runtime's equality-respecting hash: +0.0 and -0.0, equal interface values, ... hash alike); no other function of the key's representation reaches the counter selection")
	hash := cx.need(rule, "internal/xruntime", "Hasher", "Hash")
	sh := cx.need(rule, "", "sketch", "hash")
	if hash == nil || sh == nil {
		return
	}
	okAll, n := true, 0
	allInstrs(hash, func(in ssa.Instruction) {
		r, isR := in.(*ssa.Return)
		if !isR || len(r.Results) != 1 {
			return
		}
		n++
		v := stripConv(r.Results[0])
		c, isC := v.(*ssa.Call)
		if !isC || c.Call.StaticCallee() == nil || c.Call.StaticCallee().Pkg == nil || origin(c.Call.StaticCallee()).Pkg == nil {
			// generic instantiation of maphash.Comparable: resolve by name and package of the origin
			if isC && c.Call.StaticCallee() != nil && origin(c.Call.StaticCallee()).Name() == "Comparable" {
				return
			}
			okAll = false
			return
		}
		o := origin(c.Call.StaticCallee())
		if !(o.Name() == "Comparable" && o.Pkg.Pkg.Path() == "hash/maphash") {
			okAll = false
		}
	})
	cx.R.Check(okAll && n > 0, rule, funcName(hash), "comparable hash", cx.P.Pos(hash.Pos()), "Hasher.Hash is maphash.Comparable of the key on every path")
	// in sketch.hash the key flows only into Hasher.Hash
	key := ssa.Value(bparam(sh, 1))
	okKey, uses := true, 0
	for _, u := range usesOf(key) {
		switch x := u.(type) {
		case *ssa.DebugRef:
		case *ssa.Call:
			uses++
			if !isCallTo(x, hash) {
				okKey = false
			}
		default:
			uses++
			okKey = false
		}
	}
	cx.R.Check(okKey && uses > 0, rule, funcName(sh), "key only hashed", cx.P.Pos(sh.Pos()), "the key is used only as the argument of Hasher.Hash")
	_ = token.ADD
}

// ruleC18Decided: in the admission stage no entry is evicted without a reason the policy knows.
func ruleC18Decided(cx *Ctx) {
	const rule = "C18.decided"
	cx.R.Rule(rule, 1, "every eviction in evictFromMain is justified on its path: the admission decision for that pair, or one of the immediate reasons - the other cursor is nil, both cursors are the same entry, the evicted node is dead, the candidate alone exceeds the maximum; no other condition (e.g. the state of the sketch) picks a loser")
	efm := cx.need(rule, "", "policy", "evictFromMain")
	if efm == nil {
		return
	}
	r := cx.runOp(rule, opSpec{"evictFromMain", "policy", "evictFromMain", nil, "admitflow", nil})
	if r == nil {
		return
	}
	a := newAgg(cx, rule, funcName(efm), cx.P.Pos(efm.Pos()))
	total := 0
	for _, o := range r.outs {
		lastAdmit := false
		for _, e := range o.S.trace {
			switch {
			case e.Kind == "Admit":
				lastAdmit = true
			case e.Kind == "UserCall" && len(e.Args) > 2 && e.Args[0] == "evictNode":
				x := e.Args[2]
				total++
				if lastAdmit {
					lastAdmit = false
					a.check("eviction justified", true, "", "", o)
					continue
				}
				why := ""
				for atom, v := range o.S.preds {
					switch {
					case atom == "Alive("+x+")" && !v:
						why = "dead"
					case strings.HasPrefix(atom, "(Weight("+x+")>") && v:
						why = "oversized"
					case strings.HasPrefix(atom, "IsNil(") && v && !strings.Contains(atom, "load("):
						why = "other cursor nil"
					case (strings.HasPrefix(atom, "PtrEq(") || strings.HasPrefix(atom, "Equals(") || strings.HasPrefix(atom, "Eq(Key(")) && v:
						why = "same entry"
					}
				}
				a.check("eviction justified", why != "", "an eviction without an admission decision has one of the immediate reasons on its path", "evicts "+x+" without admit, nil cursor, same entry, dead node or oversized candidate", o)
			}
		}
	}
	a.flush()
	if total == 0 {
		cx.R.Violate(rule, funcName(efm), "evictions", cx.P.Pos(efm.Pos()), "NOT SATISFIED: no eviction found in evictFromMain")
	}
}

package main

func init() {
	register("C01",
		"Decides a one-step refinement of every operation against the abstract map-with-deadlines model: for each operation, each abstract pre-state of its key (absent / live / expired-unswept), each callback outcome and each configuration, every enumerated path of the real code returns the model's result and leaves the table in the model's post-state (C01.step); "+
			"no configuration reaches an unsupported node accessor (C01.cap), the node-variant table is consistent (C01.mgr) and the public wrapper forwards faithfully (C01.deleg). "+
			"The model's deadlines: every write picks the create hook for an absent/expired key and the update hook with the live old entry otherwise, and stores clock sample + that duration (C12.hook, C12.sat). "+
			"NOT decided: conformance of whole sequences when eviction interleaves, BulkGet/InvalidateAll beyond one loop iteration, iteration order.",
		[]string{"composition: operations that map related states to related states and return the model's result compose over finite sequences, given that eviction/expiration only remove entries and report them (C06)", "hashmap.Map.Compute runs its callback exactly once under the bucket lock (C15)"},
		ruleC01Step, ruleC03Deadline, ruleC01Mgr, ruleC01Deleg, ruleC01Cap, ruleC10TableC10, ruleC10Inv, ruleC10Distribute, ruleC10Finisher, ruleLoadLemma, ruleC03Source, ruleLoadOps, ruleBulkOps, ruleC03Filter, ruleC15CopyAll, ruleC15Once, ruleC12Hooks, ruleC01Config, ruleC06HandlerNil, ruleC18Hash)
}

package main

import (
	"fmt"
	"sort"
	"strings"

	"golang.org/x/tools/go/ssa"
)

var dumpMode string
var dumpPreset map[string]string

// dumpPathSum prints the outcomes of one entry (debugging aid: otterlint -pathsum recv.name).
func dumpPathSum(cx *Ctx, spec string, quiet bool) {
	parts := strings.Split(spec, ".")
	var fn *ssa.Function
	switch len(parts) {
	case 1:
		fn = cx.P.Func("", "", parts[0])
	case 2:
		fn = cx.P.Func("", parts[0], parts[1])
	case 3:
		fn = cx.P.Func(parts[0], parts[1], parts[2])
	}
	if fn == nil {
		fmt.Println("no such function", spec)
		return
	}
	ps := newPathSum(cx)
	if strings.HasSuffix(spec, "+load") || true {
		for k, kind := range loadEvents {
			pp := strings.Split(k, ".")
			if f := cx.P.Func("", pp[0], pp[1]); f != nil && origin(f) != origin(fn) {
				if strings.Contains(dumpMode, "load") {
					ps.asEvents[origin(f)] = kind
				}
			}
		}
		if strings.Contains(dumpMode, "brk") {
			if f := cx.P.Func("", "cache", "bulkRefreshKeys"); f != nil && origin(f) != origin(fn) {
				ps.asEvents[origin(f)] = "BulkRefreshKeys"
			}
		}
		if strings.Contains(dumpMode, "getnode") {
			for _, n := range []string{"getNode", "getNodeQuietly"} {
				if f := cx.P.Func("", "cache", n); f != nil {
					ps.asEvents[origin(f)] = "GetNode"
				}
			}
		}
	}
	if fn.Pkg != nil && fn.Pkg.Pkg.Path() != modPath {
		ps.inlinePkgs = map[string]bool{fn.Pkg.Pkg.Path(): true}
	}
	outs := ps.Run(fn, dumpPreset)
	fmt.Printf("%s: %d outcomes, steps %d, recorded forks %d, silent forks %d, capped %v, max %d\n", funcName(fn), len(outs), ps.steps, ps.forks, ps.silent, ps.capped, ps.maxSeen)
	if quiet {
		return
	}
	for i, o := range outs {
		fmt.Printf("--- path %d [%s]\n", i, predString(o.S.preds))
		for _, e := range o.S.trace {
			if e.Kind == "FieldStore" && strings.Contains(e.Args[0], "complit") {
				continue
			}
			fmt.Println("     ", e.String())
		}
		switch {
		case o.Panic:
			fmt.Println("      => PANIC")
		case o.Cut:
			fmt.Println("      => LOOPCUT")
		default:
			fmt.Printf("      => RETURN (%s)\n", strings.Join(o.Rets, ", "))
		}
	}
}

func predString(p map[string]bool) string {
	var ps []string
	for k, v := range p {
		if v {
			ps = append(ps, k)
		} else {
			ps = append(ps, "¬"+k)
		}
	}
	sort.Strings(ps)
	return strings.Join(ps, " ∧ ")
}

var loadEvents = map[string]string{"group.startCall": "StartCall", "group.doCall": "DoCall", "group.doBulkCall": "DoBulkCall", "call.wait": "Wait", "cache.afterDeleteCall": "AfterFinish"}

package main

import (
	"fmt"
	"go/token"
	"go/types"
	"strings"

	"golang.org/x/tools/go/ssa"
)

func init() {
	register("C16",
		"Decides the ordering/guarding discipline of the growable MPSC write buffer on every path of internal/deque/queue: a producer stores its element only after winning the index CAS and into the slot computed from the values it read before the CAS; "+
			"the slow path reports 'full' only when no capacity is left and 'resize' only after winning the odd-index CAS; resize publishes element -> link -> limit -> index -> jump marker in that order; "+
			"the consumer returns nil only for an empty queue, waits for reserved-but-unpublished slots, clears a slot before advancing, follows the jump marker; every slot access is atomic; the cache pops only under the eviction lock and never drops a task it could not push. "+
			"NOT decided: exactly-once / per-producer FIFO delivery over all interleavings.",
		[]string{"sync/atomic operations are sequentially consistent (Go memory model)", "there is a single consumer (decided separately by C16.single)"},
		ruleC16Reserve, ruleC16Full, ruleC16Cap, ruleC16Resize, ruleC16Pop, ruleC16Atomic, ruleC16Single, ruleC14After, ruleC16Init, ruleC16Order, ruleC16Consume, ruleC16InvalidateOrder, ruleC16Geometry, ruleXMath)
}

const queuePkg = "internal/deque/queue"

// slotAddr recognises &x.data[idx] where data is the `data` field of queue.buffer.
func slotAddr(cx *Ctx, v ssa.Value) (base ssa.Value, idx ssa.Value, ok bool) {
	ia, isIA := v.(*ssa.IndexAddr)
	if !isIA {
		return nil, nil, false
	}
	data := cx.P.Field(queuePkg, "buffer", "data")
	if data == nil || !sameField(fieldOf(ia.X), data) {
		return nil, nil, false
	}
	fa, _ := stripLoad(ia.X).(*ssa.FieldAddr)
	if fa == nil {
		return nil, nil, false
	}
	return fa.X, ia.Index, true
}

func isAtomicPtr(in ssa.Instruction, name string) bool {
	return isPkgFunc(in, "sync/atomic", name)
}

// slotStores returns the atomic.StorePointer calls of fn that target a buffer slot.
type slotOp struct {
	in   ssa.Instruction
	base ssa.Value
	idx  ssa.Value
	val  ssa.Value
}

// slotWrapper: g is a straight-line accessor around exactly one atomic slot operation `name` on (its buffer parameter,
// its offset parameter[, its value parameter]) - func (b *buffer) store(off uint64, p unsafe.Pointer) { atomic.StorePointer(
// &b.data[off], p) } - and returns the operation's result unchanged; the parameter positions are returned.
func slotWrapper(cx *Ctx, g *ssa.Function, name string) (bi, ii, vi int, ok bool) {
	g = origin(g)
	if g == nil || g.Pkg == nil || !strings.HasSuffix(g.Pkg.Pkg.Path(), queuePkg) || len(g.Blocks) != 1 {
		return 0, 0, 0, false
	}
	pidx := func(v ssa.Value) int {
		for i, p := range g.Params {
			if ssa.Value(p) == v {
				return i
			}
		}
		return -1
	}
	n, calls := 0, 0
	bi, ii, vi = -1, -1, -1
	var opv ssa.Value
	var ret *ssa.Return
	for _, in := range g.Blocks[0].Instrs {
		if r, isR := in.(*ssa.Return); isR {
			ret = r
		}
		if cc := callCommon(in); cc != nil {
			calls++
		}
		if !isAtomicPtr(in, name) {
			continue
		}
		a := callCommon(in).Args
		base, idx, okA := slotAddr(cx, a[0])
		if !okA {
			return 0, 0, 0, false
		}
		n++
		bi, ii = pidx(base), pidx(idx)
		if len(a) > 1 {
			vi = pidx(a[1])
			if vi < 0 {
				return 0, 0, 0, false
			}
		}
		opv, _ = in.(ssa.Value)
	}
	if n != 1 || calls != 1 || bi < 0 || ii < 0 || ret == nil {
		return 0, 0, 0, false
	}
	if len(ret.Results) == 1 && ret.Results[0] != opv {
		return 0, 0, 0, false
	}
	return bi, ii, vi, true
}

func slotOps(cx *Ctx, fn *ssa.Function, name string) []slotOp {
	var out []slotOp
	allInstrs(fn, func(in ssa.Instruction) {
		if g := calleeOf(in); g != nil && !isAtomicPtr(in, name) {
			if bi, ii, vi, ok := slotWrapper(cx, g, name); ok {
				a := callCommon(in).Args
				op := slotOp{in: in, base: a[bi], idx: a[ii]}
				if vi >= 0 {
					op.val = a[vi]
				}
				out = append(out, op)
			}
			return
		}
		if !isAtomicPtr(in, name) {
			return
		}
		a := callCommon(in).Args
		base, idx, ok := slotAddr(cx, a[0])
		if !ok {
			return
		}
		op := slotOp{in: in, base: base, idx: idx}
		if len(a) > 1 {
			op.val = a[1]
		}
		out = append(out, op)
	})
	return out
}

func isAddConst(v ssa.Value, x ssa.Value, c int64) bool {
	b, ok := v.(*ssa.BinOp)
	if !ok || b.Op != token.ADD {
		return false
	}
	if k, ok := constInt(b.Y); ok && k == c && b.X == x {
		return true
	}
	if k, ok := constInt(b.X); ok && k == c && b.Y == x {
		return true
	}
	return false
}

func atomicFieldLoad(v ssa.Value, f *types.Var) bool {
	c, ok := v.(*ssa.Call)
	return ok && atomicOp(c, f, "Load")
}

// loadOrHandedIn: v is an atomic load of field f, or a parameter that receives such a load (made for the call) at every
// call site of its function in the package.
func loadOrHandedIn(cx *Ctx, v ssa.Value, f *types.Var, pkg string) bool {
	if atomicFieldLoad(v, f) {
		return true
	}
	p, ok := v.(*ssa.Parameter)
	if !ok || p.Parent() == nil {
		return false
	}
	fn := p.Parent()
	idx := -1
	for i, q := range fn.Params {
		if q == p {
			idx = i
		}
	}
	sites, all := 0, true
	for _, g := range cx.P.FuncsOfPkg(pkg) {
		allInstrs(g, func(in ssa.Instruction) {
			if !isCallTo(in, fn) {
				return
			}
			sites++
			cc := callCommon(in)
			if idx < 0 || idx >= len(cc.Args) || !atomicFieldLoad(cc.Args[idx], f) {
				all = false
			}
		})
	}
	return sites > 0 && all
}

func ruleC16Reserve(cx *Ctx) {
	const rule = "C16.reserve"
	cx.R.Rule(rule, 2, "TryPush: the element store is dominated by the successful CAS(producerIndex, p, p+2) and uses p, the mask and the buffer read before that CAS; the resize bit is tested first; true is returned only after the element was handed over")
	fn := cx.need(rule, queuePkg, "MPSC", "TryPush")
	pi := cx.needField(rule, queuePkg, "MPSC", "producerIndex")
	pm := cx.needField(rule, queuePkg, "MPSC", "producerMask")
	pb := cx.needField(rule, queuePkg, "MPSC", "producerBuffer")
	off := cx.need(rule, queuePkg, "", "modifiedCalcElementOffset")
	resize := cx.need(rule, queuePkg, "MPSC", "resize")
	if fn == nil || pi == nil || pm == nil || pb == nil || off == nil || resize == nil {
		return
	}
	name := funcName(fn)
	stores := slotOps(cx, fn, "StorePointer")
	if len(stores) != 1 {
		cx.R.Violate(rule, name, "element store", cx.P.Pos(fn.Pos()), fmt.Sprintf("expected exactly one atomic element store in TryPush, found %d", len(stores)))
		return
	}
	st := stores[0]
	// the CAS
	var cas *ssa.Call
	allInstrs(fn, func(in ssa.Instruction) {
		if atomicOp(in, pi, "CompareAndSwap") {
			if c, ok := in.(*ssa.Call); ok {
				a := callArgs(c)
				if len(a) == 2 && isAddConst(a[1], a[0], 2) {
					cas = c
				}
			}
		}
	})
	if cas == nil {
		cx.R.Violate(rule, name, "index CAS", cx.P.Pos(fn.Pos()), "no CompareAndSwap(producerIndex, p, p+2) found")
		return
	}
	p := callArgs(cas)[0]
	cx.R.Check(atomicFieldLoad(p, pi), rule, name, "CAS expected value", cx.P.where(cas), "the CAS expects the producerIndex value loaded in this attempt")
	// store dominated by CAS success edge
	dom := false
	for _, i := range ifsOn(cas) {
		if cfgOf(fn).dominatedByEdge(edge{i.If.Block(), i.TrueIdx})[st.in.Block()] {
			dom = true
		}
	}
	cx.R.Check(dom, rule, name, "reserve-before-publish", cx.P.where(st.in), "the element store executes only after the index CAS succeeded")
	// slot = modifiedCalcElementOffset(p, mask) in buffer, both loaded before the CAS
	okIdx := false
	if c, ok := st.idx.(*ssa.Call); ok && isCallTo(c, off) {
		a := c.Call.Args
		okIdx = len(a) == 2 && a[0] == p && atomicFieldLoad(a[1], pm) && instrDominates(a[1].(ssa.Instruction), cas)
	}
	cx.R.Check(okIdx, rule, name, "slot index", cx.P.where(st.in), "slot = offset(p, mask) with the p of the CAS and the mask loaded before the CAS")
	okBuf := false
	if c, ok := st.base.(*ssa.Call); ok && atomicOp(c, pb, "Load") && instrDominates(c, cas) {
		okBuf = true
	}
	cx.R.Check(okBuf, rule, name, "slot buffer", cx.P.where(st.in), "the buffer written is the producerBuffer loaded before the CAS")
	// ... and after the index: lv(pIndex) -> [mask, buffer] -> cas(pIndex). A chunk pointer (or mask) read before the index
	// may belong to the chunk a concurrent resize has just replaced although the index read afterwards is even again
	if pl, ok := p.(ssa.Instruction); ok {
		n := 0
		allInstrs(fn, func(in ssa.Instruction) {
			c, isC := in.(*ssa.Call)
			if !isC || !(atomicOp(c, pb, "Load") || atomicOp(c, pm, "Load")) {
				return
			}
			n++
			cx.R.Check(instrDominates(pl, c), rule, name, fmt.Sprintf("index read before chunk state #%d", n), cx.P.where(in), "the producer's mask and buffer are read after the producerIndex value the CAS expects (a successful CAS then ties them to that index)")
		})
	}
	_, isParam := stripConv(st.val).(*ssa.Parameter)
	cx.R.Check(isParam, rule, name, "stored value", cx.P.where(st.in), "the stored element is the pushed argument")
	// resize bit tested before the CAS: CAS guarded by (p & 1 == 1) == false
	// the guard on (p & 1) must be true for even p and false for odd p, whatever its spelling
	// lowBit: the comparison b holds exactly for an even value of p when truth is true (for an odd one when false)
	lowBit := func(b *ssa.BinOp, p ssa.Value, truth bool) bool {
		var masked ssa.Value
		var k int64
		if c, isC := constInt(b.Y); isC {
			masked, k = b.X, c
		} else if c, isC := constInt(b.X); isC {
			masked, k = b.Y, c
		} else {
			return false
		}
		m, isAnd := masked.(*ssa.BinOp)
		if !isAnd {
			return false
		}
		one := false
		switch {
		case m.Op == token.AND && (m.X == p || m.Y == p):
			if c, isC := constInt(m.Y); isC && c == 1 {
				one = true
			}
			if c, isC := constInt(m.X); isC && c == 1 {
				one = true
			}
		case m.Op == token.REM && m.X == p:
			// p % 2 on the unsigned index is its low bit
			if c, isC := constInt(m.Y); isC && c == 2 {
				if bt, isB := p.Type().Underlying().(*types.Basic); isB && bt.Info()&types.IsUnsigned != 0 {
					one = true
				}
			}
		}
		if !one {
			return false
		}
		eval := func(x int64) bool {
			switch b.Op {
			case token.EQL:
				return x == k
			case token.NEQ:
				return x != k
			case token.GTR:
				if masked == b.X {
					return x > k
				}
				return k > x
			case token.LSS:
				if masked == b.X {
					return x < k
				}
				return k < x
			}
			return false
		}
		return eval(0) == truth && eval(1) != truth
	}
	bitOK := false
	for _, g := range guardsAt(cas.Block()) {
		if b, ok := g.Cond.(*ssa.BinOp); ok && lowBit(b, p, g.Truth) {
			bitOK = true
		}
		// the test may be a one-line predicate of the module (isResizing(p)): decided on its body
		if c, isC := g.Cond.(*ssa.Call); isC && !c.Call.IsInvoke() && len(c.Call.Args) == 1 && c.Call.Args[0] == p {
			if h := calleeOf(c); h != nil && h.Pkg != nil && strings.HasPrefix(h.Pkg.Pkg.Path(), modPath) {
				oh := origin(h)
				if len(oh.Blocks) == 1 && len(oh.Params) == 1 {
					if r, isR := oh.Blocks[0].Instrs[len(oh.Blocks[0].Instrs)-1].(*ssa.Return); isR && len(r.Results) == 1 {
						if hb, isB := r.Results[0].(*ssa.BinOp); isB && lowBit(hb, oh.Params[0], g.Truth) {
							bitOK = true
						}
					}
				}
			}
		}
	}
	cx.R.Check(bitOK, rule, name, "resize bit", cx.P.where(cas), "an odd producerIndex (resize in progress) is never CASed: the attempt spins")
	// returns
	allInstrs(fn, func(in ssa.Instruction) {
		ret, ok := in.(*ssa.Return)
		if !ok || len(ret.Results) != 1 {
			return
		}
		b, isConst := constBool(ret.Results[0])
		if !isConst {
			cx.R.Violate(rule, name, "return", cx.P.where(ret), "TryPush returns a non-constant result")
			return
		}
		if b {
			handed := instrDominates(st.in, ret)
			allInstrs(fn, func(x ssa.Instruction) {
				if isCallTo(x, resize) && instrDominates(x, ret) {
					a := callArgs(x)
					if len(a) == 4 {
						if _, isP := a[3].(*ssa.Parameter); isP && a[2] == p {
							handed = true
						}
					}
				}
			})
			cx.R.Check(handed, rule, name, "return true", cx.P.where(ret), "true is returned only after the element store or after resize(mask, buffer, p, element)")
		}
	})
}

func ruleC16Full(cx *Ctx) {
	const rule = "C16.full"
	cx.R.Rule(rule, 1, "pushSlowPath/TryPush result protocol: 'full' only on availableInQueue <= 0, 'resize' only after winning CAS(producerIndex, p, p+1), 'go on' only after extending the limit; TryPush refuses only on 'full' and resizes only on 'resize'")
	slow := cx.need(rule, queuePkg, "MPSC", "pushSlowPath")
	push := cx.need(rule, queuePkg, "MPSC", "TryPush")
	avail := cx.need(rule, queuePkg, "MPSC", "availableInQueue")
	resize := cx.need(rule, queuePkg, "MPSC", "resize")
	pi := cx.needField(rule, queuePkg, "MPSC", "producerIndex")
	pl := cx.needField(rule, queuePkg, "MPSC", "producerLimit")
	ci := cx.needField(rule, queuePkg, "MPSC", "consumerIndex")
	if slow == nil || push == nil || avail == nil || resize == nil || pi == nil || pl == nil || ci == nil {
		return
	}
	name := funcName(slow)
	// collect the constant results with the guards of the block they come from
	type res struct {
		c     int64
		block *ssa.BasicBlock
		at    ssa.Instruction
		succ  *ssa.BasicBlock
	}
	var results []res
	allInstrs(slow, func(in ssa.Instruction) {
		ret, ok := in.(*ssa.Return)
		if !ok || len(ret.Results) != 1 {
			return
		}
		switch v := ret.Results[0].(type) {
		case *ssa.Phi:
			for i, e := range v.Edges {
				if c, ok := constInt(e); ok {
					results = append(results, res{c, v.Block().Preds[i], ret, v.Block()})
				} else {
					cx.R.Undecided(rule, name, "result", cx.P.where(ret), "non-constant slow-path result")
				}
			}
		default:
			if c, ok := constInt(v); ok {
				results = append(results, res{c, ret.Block(), ret, nil})
			} else {
				cx.R.Undecided(rule, name, "result", cx.P.where(ret), "non-constant slow-path result")
			}
		}
	})
	var curSucc *ssa.BasicBlock
	hasGuard := func(b *ssa.BasicBlock, pred func(g Guard) bool) bool {
		gs := guardsAt(b)
		if curSucc != nil {
			gs = guardsOnEdge(b, curSucc)
		}
		for _, g := range gs {
			if pred(g) {
				return true
			}
		}
		return false
	}
	// which code TryPush treats how
	fullCode, resizeCode := int64(-1), int64(-1)
	var slowCall *ssa.Call
	allInstrs(push, func(in ssa.Instruction) {
		if c, ok := in.(*ssa.Call); ok && isCallTo(c, slow) {
			slowCall = c
		}
	})
	if slowCall == nil {
		cx.R.Undecided(rule, funcName(push), "slow path call", cx.P.Pos(push.Pos()), "TryPush no longer calls pushSlowPath")
		return
	}
	allInstrs(push, func(in ssa.Instruction) {
		if ret, ok := in.(*ssa.Return); ok && len(ret.Results) == 1 {
			if b, ok := constBool(ret.Results[0]); ok && !b {
				for _, g := range guardsAt(ret.Block()) {
					if x, c, isEq, ok := eqConst(g.Cond); ok && x == ssa.Value(slowCall) && isEq && g.Truth {
						fullCode = c
					}
				}
				cx.R.Check(fullCode >= 0, rule, funcName(push), "refusal", cx.P.where(ret), "TryPush returns false only under one specific slow-path code")
			}
		}
		if isCallTo(in, resize) {
			for _, g := range guardsAt(in.Block()) {
				if x, c, isEq, ok := eqConst(g.Cond); ok && x == ssa.Value(slowCall) && isEq && g.Truth {
					resizeCode = c
				}
			}
			cx.R.Check(resizeCode >= 0, rule, funcName(push), "resize dispatch", cx.P.where(in), "resize is entered only under one specific slow-path code")
		}
	})
	for _, r := range results {
		curSucc = r.succ
		switch r.c {
		case fullCode:
			ok := hasGuard(r.block, func(g Guard) bool {
				b, isB := g.Cond.(*ssa.BinOp)
				if !isB || !g.Truth {
					return false
				}
				c, isCall := b.X.(*ssa.Call)
				k, isK := constInt(b.Y)
				return isCall && isCallTo(c, avail) && isK && k == 0 && (b.Op == token.LEQ || b.Op == token.EQL)
			})
			cx.R.Check(ok, rule, name, "code full", cx.P.where(r.at), "'full' is reported only on the availableInQueue(p, c) <= 0 edge (an offer is refused only when the buffer holds its maximum)")
		case resizeCode:
			ok := hasGuard(r.block, func(g Guard) bool {
				c, isCall := g.Cond.(*ssa.Call)
				if !isCall || !g.Truth || !atomicOp(c, pi, "CompareAndSwap") {
					return false
				}
				a := callArgs(c)
				return len(a) == 2 && isAddConst(a[1], a[0], 1)
			})
			cx.R.Check(ok, rule, name, "code resize", cx.P.where(r.at), "'resize' is reported only after winning CAS(producerIndex, p, p+1) (one resizer)")
		case 0:
			ok := hasGuard(r.block, func(g Guard) bool {
				c, isCall := g.Cond.(*ssa.Call)
				return isCall && g.Truth && atomicOp(c, pl, "CompareAndSwap")
			})
			cx.R.Check(ok, rule, name, "code continue", cx.P.where(r.at), "'continue to the index CAS' only after the producer limit was extended by CAS")
		}
	}
	// availableInQueue is computed from the consumer index loaded in the slow path
	okAvail := false
	allInstrs(slow, func(in ssa.Instruction) {
		if isCallTo(in, avail) {
			a := callArgs(in)
			if len(a) == 2 && loadOrHandedIn(cx, a[1], ci, queuePkg) {
				if _, isP := a[0].(*ssa.Parameter); isP {
					okAvail = true
				}
			}
		}
	})
	cx.R.Check(okAvail, rule, name, "capacity operands", cx.P.Pos(slow.Pos()), "capacity left is computed from the producer index argument and a fresh consumerIndex load")
	// availableInQueue = maxQueueCapacity - (p - c)
	{
		ok := false
		mq := cx.P.Field(queuePkg, "MPSC", "maxQueueCapacity")
		isSize := func(v ssa.Value) bool {
			d, isD := v.(*ssa.BinOp)
			if !isD || d.Op != token.SUB {
				return false
			}
			px, okx := d.X.(*ssa.Parameter)
			py, oky := d.Y.(*ssa.Parameter)
			return okx && oky && px == bparam(avail, 1) && py == bparam(avail, 2)
		}
		allRets := true
		nRets := 0
		allInstrs(avail, func(in ssa.Instruction) {
			ret, isRet := in.(*ssa.Return)
			if !isRet || len(ret.Results) != 1 {
				return
			}
			nRets++
			vals := []ssa.Value{ret.Results[0]}
			var preds []*ssa.BasicBlock
			if ph, isPhi := ret.Results[0].(*ssa.Phi); isPhi {
				vals = ph.Edges
				preds = ph.Block().Preds
			}
			for i, v := range vals {
				if b, isB := v.(*ssa.BinOp); isB && b.Op == token.SUB && sameField(fieldOf(b.X), mq) && isSize(b.Y) {
					ok = true
					continue
				}
				// any other spelling of the same linear expression (capacity + c - p, ...)
				{
					tb := newInliningTermBuilder()
					tb.subst[bparam(avail, 1)] = tVar("P")
					tb.subst[bparam(avail, 2)] = tVar("C")
					lf := linearForm(tb.of(v))
					capAtom := ""
					for a := range lf {
						if strings.HasPrefix(a, "field:maxQueueCapacity(") {
							capAtom = a
						}
					}
					if capAtom != "" && sameLinear(lf, map[string]int64{capAtom: 1, "P": -1, "C": 1}) {
						ok = true
						continue
					}
				}
				// a saturating form: 0 exactly when the size p - c has reached the capacity
				sat := false
				if k, isK := constInt(v); isK && k == 0 {
					gs := guardsAt(ret.Block())
					if preds != nil {
						gs = guardsOnEdge(preds[i], ret.Block())
					}
					for _, g := range gs {
						if c, isC := g.Cond.(*ssa.BinOp); isC && isSize(c.X) && sameField(fieldOf(c.Y), mq) && ((c.Op == token.GEQ && g.Truth) || (c.Op == token.LSS && !g.Truth)) {
							sat = true
						}
					}
				}
				if !sat {
					allRets = false
				}
			}
		})
		ok = ok && allRets && nRets > 0
		cx.R.Check(ok, rule, funcName(avail), "formula", cx.P.Pos(avail.Pos()), "availableInQueue(p, c) = maxQueueCapacity - (p - c)")
	}
}

func ruleC16Resize(cx *Ctx) {
	const rule = "C16.resize"
	cx.R.Rule(rule, 2, "resize store order: new producerBuffer/mask, element into the new buffer, link in the old buffer, new producerLimit, producerIndex = p+2, jump marker into the old slot - each before the next")
	fn := cx.need(rule, queuePkg, "MPSC", "resize")
	pi := cx.needField(rule, queuePkg, "MPSC", "producerIndex")
	pl := cx.needField(rule, queuePkg, "MPSC", "producerLimit")
	pm := cx.needField(rule, queuePkg, "MPSC", "producerMask")
	pb := cx.needField(rule, queuePkg, "MPSC", "producerBuffer")
	jump := cx.needField(rule, queuePkg, "MPSC", "jump")
	if fn == nil || pi == nil || pl == nil || pm == nil || pb == nil || jump == nil {
		return
	}
	// decided on the path summaries of resize (helpers inlined): the sequence of atomic stores of every returning path
	ps := newPathSum(cx)
	ps.inlinePkgs = map[string]bool{pkgPath(queuePkg): true}
	outs := ps.Run(fn, nil)
	cx.R.AddInt("paths_enumerated", len(outs))
	if ps.capped {
		cx.R.Undecided(rule, funcName(fn), "path cap", cx.P.Pos(fn.Pos()), "path enumeration exceeded its bound")
		return
	}
	name := funcName(fn)
	a := newAgg(cx, rule, name, cx.P.Pos(fn.Pos()))
	recv := "param:" + pname(bparam(fn, 0))
	oldMask := "param:" + pname(bparam(fn, 1))
	oldBuf := "param:" + pname(bparam(fn, 2))
	pIndex := "param:" + pname(bparam(fn, 3))
	elemP := "param:" + pname(bparam(fn, 4))
	fld := func(f *types.Var) string { return "&" + recv + "." + fname(f) }
	returning := 0
	for _, o := range outs {
		if o.Cut || o.Panic {
			continue
		}
		returning++
		idx := map[string]int{}
		nb := ""
		for i, e := range o.S.trace {
			if e.Kind != "Atomic" || len(e.Args) < 3 {
				continue
			}
			op, addr, val := e.Args[0], e.Args[1], e.Args[2]
			inOld := strings.HasPrefix(addr, "&load("+oldBuf+".") // a slot of the old buffer's array
			switch {
			case op == "Store" && addr == fld(pb):
				idx["producerBuffer"], nb = i, val
			case op == "Store" && addr == fld(pm):
				idx["producerMask"] = i
			case op == "Store" && addr == fld(pl):
				idx["new producerLimit"] = i
			case op == "Store" && addr == fld(pi):
				if val == "("+pIndex+"+const(2))" {
					idx["producerIndex = p+2"] = i
				}
			case op == "StorePointer" && val == elemP && !inOld:
				idx["element into new buffer"] = i
			case op == "StorePointer" && inOld && nb != "" && val == nb && strings.Contains(addr, oldMask):
				idx["link old->new buffer"] = i
			case op == "StorePointer" && inOld && val == "load("+recv+"."+fname(jump)+")" && strings.Contains(addr, pIndex) && strings.Contains(addr, oldMask):
				idx["jump marker into old slot"] = i
			}
		}
		steps := []string{"element into new buffer", "link old->new buffer", "new producerLimit", "producerIndex = p+2", "jump marker into old slot"}
		for _, s := range steps {
			_, ok := idx[s]
			a.check(s, ok, "resize performs this publication step on every returning path", "step not found", o)
		}
		for i := 0; i+1 < len(steps); i++ {
			x, ok1 := idx[steps[i]]
			y, ok2 := idx[steps[i+1]]
			if ok1 && ok2 {
				a.check(steps[i]+" ≺ "+steps[i+1], x < y, steps[i]+" happens before "+steps[i+1], "order reversed", o)
			}
		}
		if ix, ok := idx["producerIndex = p+2"]; ok {
			b, okb := idx["producerBuffer"]
			a.check("producerBuffer ≺ index", okb && b < ix, "producers that see the even index see the new producerBuffer", "missing or late", o)
			m, okm := idx["producerMask"]
			a.check("producerMask ≺ index", okm && m < ix, "producers that see the even index see the new producerMask", "missing or late", o)
		}
	}
	a.check("returning paths analysed", returning > 0, "resize has returning paths (non-vacuity)", "none", nil)
	a.flush()
}

func ruleC16Pop(cx *Ctx) {
	const rule = "C16.pop"
	cx.R.Rule(rule, 2, "TryPop: nil only when the slot is empty and consumerIndex == producerIndex; a reserved slot is awaited; the slot is cleared before consumerIndex advances by 2; the jump marker leads to the linked buffer; same discipline in newBufferTryPush")
	fn := cx.need(rule, queuePkg, "MPSC", "TryPop")
	ci := cx.needField(rule, queuePkg, "MPSC", "consumerIndex")
	pi := cx.needField(rule, queuePkg, "MPSC", "producerIndex")
	cb := cx.needField(rule, queuePkg, "MPSC", "consumerBuffer")
	jump := cx.needField(rule, queuePkg, "MPSC", "jump")
	if fn == nil || ci == nil || pi == nil || cb == nil || jump == nil {
		return
	}
	name := funcName(fn)
	loads := slotOps(cx, fn, "LoadPointer")
	stores := slotOps(cx, fn, "StorePointer")
	var idxLoad ssa.Value
	allInstrs(fn, func(in ssa.Instruction) {
		if c, ok := in.(*ssa.Call); ok && atomicOp(c, ci, "Load") {
			idxLoad = c
		}
	})
	// (1), (2) are decided in two tiers: on the shape of TryPop itself, and - when the code was reshaped (helpers inlined
	// or split off, the consumer's position wrapped into a small type) - on its path summaries below
	t1 := map[string]bool{}
	t1at := map[string]string{}
	tier1 := func(key string, ok bool, where string) {
		if prev, seen := t1[key]; seen {
			ok = ok && prev
		}
		t1[key] = ok
		t1at[key] = where
	}
	// (1) return nil guards
	allInstrs(fn, func(in ssa.Instruction) {
		ret, ok := in.(*ssa.Return)
		if !ok || len(ret.Results) != 1 || !isNilConst(ret.Results[0]) {
			return
		}
		empty, equal := false, false
		for _, g := range guardsAt(ret.Block()) {
			if x, isEq, ok := nilCmp(g.Cond); ok && (isEq == g.Truth) {
				for _, l := range loads {
					if ssa.Value(l.in.(*ssa.Call)) == x {
						empty = true
					}
				}
			}
			if b, ok := g.Cond.(*ssa.BinOp); ok && b.Op == token.EQL && g.Truth {
				if (b.X == idxLoad && atomicFieldLoad(b.Y, pi)) || (b.Y == idxLoad && atomicFieldLoad(b.X, pi)) {
					equal = true
				}
			}
		}
		tier1("return nil", empty && equal, cx.P.where(ret))
	})
	// (2) clear before advance; advance by 2; non-nil value only
	var clear, adv ssa.Instruction
	for _, s := range stores {
		if isNilConst(s.val) {
			clear = s.in
		}
	}
	allInstrs(fn, func(in ssa.Instruction) {
		if atomicOp(in, ci, "Store") {
			if a := callArgs(in); len(a) == 1 && isAddConst(a[0], idxLoad, 2) {
				adv = in
			}
		}
	})
	tier1("clear ≺ advance", clear != nil && adv != nil && instrDominates(clear, adv), cx.P.Pos(fn.Pos()))
	if adv != nil {
		// with every "loaded slot value != nil" edge cut, the advance must be unreachable (a reserved-but-unpublished slot is awaited, never skipped)
		cut := map[edge]bool{}
		for _, l := range loads {
			v := l.in.(*ssa.Call)
			var conds []ssa.Value
			conds = append(conds, v)
			for _, u := range usesOf(v) {
				if ph, ok := u.(*ssa.Phi); ok {
					conds = append(conds, ph)
				}
			}
			for _, c := range conds {
				for _, u := range usesOf(c) {
					if b, ok := u.(*ssa.BinOp); ok {
						if _, isEq, ok := nilCmp(b); ok {
							for _, i := range ifsOn(b) {
								idx := i.TrueIdx
								if isEq {
									idx = 1 - idx
								}
								cut[edge{i.If.Block(), idx}] = true
							}
						}
					}
				}
			}
		}
		reach := reachableBlocks(fn, cut)
		tier1("await published", !reach[adv.Block()] && len(cut) >= 2, cx.P.where(adv))
	}
	if clear != nil {
		// every value that can be handed out was itself compared with the marker: the returned value, or - when it is a
		// phi (the slot is re-read after waiting for its producer) - each incoming value on its edge
		isNotJump := func(g Guard, v ssa.Value) bool {
			b, ok := g.Cond.(*ssa.BinOp)
			if !ok || b.Op != token.EQL || g.Truth {
				return false
			}
			return (b.X == v && sameField(fieldOf(b.Y), jump)) || (b.Y == v && sameField(fieldOf(b.X), jump))
		}
		notJump, nret := true, 0
		allInstrs(fn, func(in ssa.Instruction) {
			ret, ok := in.(*ssa.Return)
			if !ok || len(ret.Results) != 1 || isNilConst(ret.Results[0]) {
				return
			}
			rv := stripConv(ret.Results[0])
			if _, isCall := rv.(*ssa.Call); isCall && !isAtomicPtr(rv.(*ssa.Call), "LoadPointer") {
				return // the jump path returns what the helper found in the next buffer (decided below)
			}
			nret++
			check := func(v ssa.Value, gs []Guard) {
				ok := false
				for _, g := range gs {
					if isNotJump(g, v) {
						ok = true
					}
				}
				if !ok {
					notJump = false
				}
			}
			if ph, isPhi := rv.(*ssa.Phi); isPhi {
				for i, e := range ph.Edges {
					check(stripConv(e), append(guardsOnEdge(ph.Block().Preds[i], ph.Block()), guardsAt(ph.Block().Preds[i])...))
				}
			} else {
				check(rv, guardsAt(ret.Block()))
			}
		})
		tier1("marker not consumed", notJump && nret > 0, cx.P.where(clear))
	}
	// (3)-(5) the jump path, on the path summaries of TryPop with its helpers inlined (they may be one function or several):
	// a slot holding the marker leads to the buffer linked at nextArrayOffset(mask) of the exhausted buffer; the link is
	// cleared; the consumer switches to that buffer; the element at the same index is loaded there, cleared before
	// consumerIndex advances by 2, and returned
	ps := newPathSum(cx)
	ps.inlinePkgs = map[string]bool{pkgPath(queuePkg): true}
	ps.alsoRelevant = []string{"." + fname(jump) + ")", "Eq(atomic:Load#"}
	ps.trackLoads = true
	for _, h := range cx.P.FuncsOfPkg(queuePkg) {
		ps.inlineLoops[origin(h)] = true // the spin on an unpublished slot may live in a helper
	}
	outs := ps.Run(fn, nil)
	cx.R.AddInt("paths_enumerated", len(outs))
	if ps.capped {
		cx.R.Undecided(rule, name, "path cap", cx.P.Pos(fn.Pos()), "path enumeration exceeded its bound")
		return
	}
	a := newAgg(cx, rule, name, cx.P.Pos(fn.Pos()))
	recv := "param:" + pname(bparam(fn, 0))
	jumpT := "load(" + recv + "." + fname(jump) + ")"
	// ---- tier 2 of (1), (2): every returning path
	t2 := map[string]bool{"return nil": true, "clear ≺ advance": true, "await published": true, "marker not consumed": true}
	nNil, nElem := 0, 0
	for _, o := range outs {
		if o.Cut || o.Panic || len(o.Rets) != 1 {
			continue
		}
		var cIdx, pIdx string
		type lp struct {
			res, addr string
			at        int
		}
		var lps []lp
		clears := map[string]int{}
		advAt, advN := -1, 0
		for i, e := range o.S.trace {
			switch {
			case e.Kind == "AtomicLoad" && len(e.Args) > 0 && e.Args[0] == "&"+recv+"."+fname(ci) && cIdx == "":
				cIdx = e.Res
			case e.Kind == "AtomicLoad" && len(e.Args) > 0 && e.Args[0] == "&"+recv+"."+fname(pi):
				pIdx = e.Res
			case e.Kind == "Atomic" && e.Args[0] == "LoadPointer":
				lps = append(lps, lp{e.Res, e.Args[1], i})
			case e.Kind == "Atomic" && e.Args[0] == "StorePointer" && len(e.Args) == 3 && e.Args[2] == "nil":
				clears[e.Args[1]] = i
			case e.Kind == "Atomic" && e.Args[0] == "Store" && e.Args[1] == "&"+recv+"."+fname(ci):
				advN++
				if cIdx != "" && e.Args[2] == "("+cIdx+"+const(2))" {
					advAt = i
				}
			}
		}
		if o.Rets[0] == "nil" {
			nNil++
			empty := len(lps) > 0
			for _, l := range lps {
				if isNil, k := o.S.preds["IsNil("+l.res+")"]; !k || !isNil {
					empty = false
				}
			}
			eq := false
			if cIdx != "" && pIdx != "" {
				if v, k := o.S.preds["Eq("+cIdx+","+pIdx+")"]; k && v {
					eq = true
				}
				if v, k := o.S.preds["Eq("+pIdx+","+cIdx+")"]; k && v {
					eq = true
				}
			}
			if !(empty && eq && advN == 0 && len(clears) == 0) {
				t2["return nil"] = false
			}
			continue
		}
		nElem++
		var el *lp
		for i := range lps {
			if lps[i].res == o.Rets[0] {
				el = &lps[i]
			}
		}
		if el == nil {
			t2["await published"] = false
			continue
		}
		if isNil, k := o.S.preds["IsNil("+el.res+")"]; !k || isNil {
			t2["await published"] = false
		}
		c, cleared := clears[el.addr]
		if !(cleared && c > el.at && advAt > c && advN == 1) {
			t2["clear ≺ advance"] = false
		}
		isJumpPath := false
		for atom, v := range o.S.preds {
			if v && (strings.HasPrefix(atom, "PtrEq(") || strings.HasPrefix(atom, "Eq(")) && strings.Contains(atom, jumpT) {
				isJumpPath = true
			}
		}
		if !isJumpPath {
			known := false
			for atom, v := range o.S.preds {
				if !v && (strings.HasPrefix(atom, "PtrEq(") || strings.HasPrefix(atom, "Eq(")) && strings.Contains(atom, jumpT) && strings.Contains(atom, el.res) {
					known = true
				}
			}
			if !known {
				t2["marker not consumed"] = false
			}
		}
	}
	if nNil == 0 {
		t2["return nil"] = false
	}
	if nElem == 0 {
		t2["clear ≺ advance"], t2["await published"], t2["marker not consumed"] = false, false, false
	}
	for _, k := range []struct{ key, text string }{
		{"return nil", "nil is returned only when the slot is empty and consumerIndex equals producerIndex (queue empty)"},
		{"clear ≺ advance", "the consumed slot is cleared before consumerIndex advances by 2"},
		{"await published", "consumerIndex advances only on a path where the slot was observed non-nil"},
		{"marker not consumed", "the jump marker is never handed out as an element"},
	} {
		v1, seen := t1[k.key]
		where := t1at[k.key]
		if where == "" {
			where = cx.P.Pos(fn.Pos())
		}
		cx.R.Check((seen && v1) || t2[k.key], rule, name, k.key, where, k.text)
	}
	jumpPaths := 0
	for _, o := range outs {
		if o.Cut || o.Panic {
			continue
		}
		// is this a path on which a loaded slot equalled the marker?
		marker := ""
		for atom, v := range o.S.preds {
			if v && strings.HasPrefix(atom, "PtrEq(") && strings.Contains(atom, jumpT) {
				marker = atom
			}
			if v && strings.HasPrefix(atom, "Eq(") && strings.Contains(atom, jumpT) {
				marker = atom
			}
		}
		if marker == "" {
			continue
		}
		jumpPaths++
		var cIndex string
		for _, e := range o.S.trace {
			if e.Kind == "AtomicLoad" && len(e.Args) > 0 && e.Args[0] == "&"+recv+"."+fname(ci) && cIndex == "" {
				cIndex = e.Res
			}
		}
		// events after the marker was seen: link load, link clear, buffer switch, element load, clear, advance
		var linkRes, linkAddr, swVal, elemRes, elemAddr string
		iLinkClr, iSwitch, iElemLd, iElemClr, iAdv := -1, -1, -1, -1, -1
		for i, e := range o.S.trace {
			if e.Kind != "Atomic" {
				continue
			}
			switch e.Args[0] {
			case "LoadPointer":
				if strings.Contains(e.Args[1], "+const(2))") && linkRes == "" {
					linkRes, linkAddr = e.Res, e.Args[1]
				} else if linkRes != "" && strings.Contains(e.Args[1], linkRes) {
					elemRes, elemAddr, iElemLd = e.Res, e.Args[1], i
				}
			case "StorePointer":
				if len(e.Args) == 3 && e.Args[2] == "nil" {
					if e.Args[1] == linkAddr && linkAddr != "" {
						iLinkClr = i
					}
					if e.Args[1] == elemAddr && elemAddr != "" {
						iElemClr = i
					}
				}
			case "Store":
				if e.Args[1] == "&"+recv+"."+fname(cb) {
					iSwitch, swVal = i, e.Args[2]
				}
				if e.Args[1] == "&"+recv+"."+fname(ci) && cIndex != "" && e.Args[2] == "("+cIndex+"+const(2))" {
					iAdv = i
				}
			}
		}
		a.check("follow jump", linkRes != "" && iSwitch >= 0 && swVal == linkRes, "a slot holding the jump marker is followed into the buffer linked at nextArrayOffset(mask); the consumer switches consumerBuffer to it", fmt.Sprintf("link=%q switch to %q", linkRes, swVal), o)
		a.check("link cleared", iLinkClr >= 0, "the link slot of the exhausted buffer is cleared", "no clear of the link slot", o)
		a.check("same index in the linked buffer", iElemLd >= 0 && cIndex != "" && strings.Contains(elemAddr, cIndex), "the element is read from the linked buffer at the consumer index that hit the marker", "element address "+elemAddr, o)
		a.check("linked buffer: clear ≺ advance", iElemClr >= 0 && iAdv >= 0 && iElemLd < iElemClr && iElemClr < iAdv, "in the linked buffer the slot is cleared before consumerIndex advances by 2", fmt.Sprintf("load %d clear %d advance %d", iElemLd, iElemClr, iAdv), o)
		a.check("returns the element", len(o.Rets) == 1 && o.Rets[0] == elemRes && elemRes != "", "the element loaded from the linked buffer is returned", fmt.Sprint(o.Rets), o)
	}
	a.check("jump paths analysed", jumpPaths > 0, "returning paths through the jump marker exist (non-vacuity)", "none", nil)
	a.flush()
}

func reachableBlocks(fn *ssa.Function, cut map[edge]bool) map[*ssa.BasicBlock]bool {
	reach := map[*ssa.BasicBlock]bool{fn.Blocks[0]: true}
	stack := []*ssa.BasicBlock{fn.Blocks[0]}
	for len(stack) > 0 {
		b := stack[len(stack)-1]
		stack = stack[:len(stack)-1]
		for i, s := range b.Succs {
			if cut[edge{b, i}] || reach[s] {
				continue
			}
			reach[s] = true
			stack = append(stack, s)
		}
	}
	return reach
}

func ruleC16Atomic(cx *Ctx) {
	const rule = "C16.atomic"
	cx.R.Rule(rule, 2, "every access to a buffer element slot in package queue is an atomic.LoadPointer / atomic.StorePointer (newBuffer allocates only)")
	data := cx.needField(rule, queuePkg, "buffer", "data")
	if data == nil {
		return
	}
	for _, fn := range cx.P.FuncsOfPkg(queuePkg) {
		name := funcName(fn)
		n := 0
		allInstrs(fn, func(in ssa.Instruction) {
			ia, ok := in.(*ssa.IndexAddr)
			if !ok || !sameField(fieldOf(ia.X), data) {
				return
			}
			n++
			for _, u := range usesOf(ia) {
				ok := isAtomicPtr(u, "LoadPointer") || isAtomicPtr(u, "StorePointer") || slotHandedToAtomicOnly(u, ia, 0)
				cx.R.Check(ok, rule, name, fmt.Sprintf("slot access #%d", n), cx.P.where(u), "element slot accessed through sync/atomic")
			}
		})
		// plain stores to the data field itself outside newBuffer
		allInstrs(fn, func(in ssa.Instruction) {
			if st, ok := in.(*ssa.Store); ok && sameField(fieldOf(st.Addr), data) && fn.Name() != "newBuffer" {
				cx.R.Violate(rule, name, "data reassigned", cx.P.where(in), "buffer.data is replaced outside newBuffer")
			}
		})
	}
}

// slotHandedToAtomicOnly: u hands the slot address to a function of the module whose corresponding parameter is used for
// nothing but atomic.LoadPointer / atomic.StorePointer (or handed on to such a function): the access stays atomic.
func slotHandedToAtomicOnly(u ssa.Instruction, addr ssa.Value, depth int) bool {
	c, ok := u.(*ssa.Call)
	if !ok || c.Call.IsInvoke() || depth > 3 {
		return false
	}
	h := c.Call.StaticCallee()
	if h == nil || origin(h).Pkg == nil || !strings.HasPrefix(origin(h).Pkg.Pkg.Path(), modPath) || len(origin(h).Blocks) == 0 {
		return false
	}
	o := origin(h)
	found := false
	for k, a := range c.Call.Args {
		if a != addr {
			continue
		}
		if k >= len(o.Params) {
			return false
		}
		found = true
		for _, r := range *o.Params[k].Referrers() {
			if _, isDbg := r.(*ssa.DebugRef); isDbg {
				continue
			}
			if (isAtomicPtr(r, "LoadPointer") || isAtomicPtr(r, "StorePointer")) && callCommon(r).Args[0] == ssa.Value(o.Params[k]) {
				continue
			}
			if slotHandedToAtomicOnly(r, o.Params[k], depth+1) {
				continue
			}
			return false
		}
	}
	return found
}

// ruleC16Single: the single-consumer assumption. TryPop on the cache's write buffer only with the eviction lock held.
func ruleC16Single(cx *Ctx) {
	const rule = "C16.single"
	cx.R.Rule(rule, 1, "writeBuffer.TryPop is called only with the eviction lock held (single consumer)")
	wb := cx.needField(rule, "", "cache", "writeBuffer")
	tryPop := cx.need(rule, queuePkg, "MPSC", "TryPop")
	if wb == nil || tryPop == nil {
		return
	}
	lc := lockContext(cx)
	if lc == nil {
		cx.R.Undecided(rule, "*", "lock context", "-", "eviction-lock context analysis unavailable")
		return
	}
	for _, fn := range cx.P.FuncsOfPkg("") {
		allInstrs(fn, func(in ssa.Instruction) {
			if callOnField(in, wb, tryPop) {
				cx.R.Check(lc.heldAtCtx(in), rule, funcName(fn), "TryPop", cx.P.where(in), "the write buffer is consumed under the eviction lock: "+lc.explain(in))
			}
		})
	}
}

// ruleC16Init: the queue's capacity fields are derived from power-of-two rounded capacities.
func ruleC16Init(cx *Ctx) {
	const rule = "C16.init"
	cx.R.Rule(rule, 1, "NewMPSC derives maxQueueCapacity, the initial masks/limit and the first buffer length from the power-of-two rounded capacities (the index arithmetic and the 'last chunk' test rely on it)")
	fn := cx.need(rule, queuePkg, "", "NewMPSC")
	mq := cx.needField(rule, queuePkg, "MPSC", "maxQueueCapacity")
	if fn == nil || mq == nil {
		return
	}
	name := funcName(fn)
	p2 := func(param string) *Term { return mk("call:RoundUpPowerOf2", tVar(param)) }
	wantMax := mk("<<", p2("param1"), tConst(1)).String()
	wantMask := mk("<<", mk("-", p2("param0"), tConst(1)), tConst(1)).String()
	found := false
	allInstrs(fn, func(in ssa.Instruction) {
		if st, ok := in.(*ssa.Store); ok && sameField(fieldOf(st.Addr), mq) {
			found = true
			got := newInliningTermBuilder().of(st.Val).String()
			cx.R.Check(got == wantMax, rule, name, "maxQueueCapacity", cx.P.where(st), "maxQueueCapacity = RoundUpPowerOf2(maxCapacity) << 1 (got "+got+")")
		}
	})
	if !found {
		cx.R.Violate(rule, name, "maxQueueCapacity", cx.P.Pos(fn.Pos()), "NOT SATISFIED: NewMPSC does not set maxQueueCapacity")
	}
	masks := 0
	for _, f := range []string{"consumerMask", "producerMask", "producerLimit"} {
		fv := cx.P.Field(queuePkg, "MPSC", f)
		allInstrs(fn, func(in ssa.Instruction) {
			if atomicOp(in, fv, "Store") {
				got := newInliningTermBuilder().of(callArgs(in)[0]).String()
				masks++
				cx.R.Check(got == wantMask, rule, name, f, cx.P.where(in), f+" = (RoundUpPowerOf2(initialCapacity) - 1) << 1 (got "+got+")")
			}
		})
	}
	cx.R.Check(masks == 3, rule, name, "masks initialised", cx.P.Pos(fn.Pos()), "consumerMask, producerMask and producerLimit are initialised")
	// the cache passes constants / power-of-two derived capacities
	okLen := false
	nb := cx.P.Func(queuePkg, "", "newBuffer")
	allInstrs(fn, func(in ssa.Instruction) {
		if nb != nil && isCallTo(in, nb) {
			got := newInliningTermBuilder().of(callArgs(in)[0]).String()
			okLen = got == mk("+", p2("param0"), tConst(1)).String()
		}
	})
	cx.R.Check(okLen, rule, name, "first buffer length", cx.P.Pos(fn.Pos()), "the first buffer has RoundUpPowerOf2(initialCapacity)+1 slots (one link slot)")
}

// ruleC16Order: producer order across the caller-runs fallback.
func ruleC16Order(cx *Ctx) {
	const rule = "C16.order"
	cx.R.Rule(rule, 1, "maintenance replays the queued events before the task of the caller that fell back to running maintenance itself (that task is its producer's newest event)")
	maint := cx.need(rule, "", "cache", "maintenance")
	dwb := cx.need(rule, "", "cache", "drainWriteBuffer")
	rt := cx.need(rule, "", "cache", "runTask")
	if maint == nil || dwb == nil || rt == nil {
		return
	}
	tryPop := cx.need(rule, queuePkg, "MPSC", "TryPop")
	if tryPop == nil {
		return
	}
	_ = dwb
	ok := drainBeforeTask(maint, ssa.Value(bparam(maint, 1)), rt, tryPop, 0)
	cx.R.Check(ok, rule, funcName(maint), "drain ≺ own task", cx.P.Pos(maint.Pos()), "the step that pops the write buffer precedes runTask(own task) - in maintenance or in the helper both were handed to: events of one producer are consumed in submission order")
}

// drainBeforeTask: in fn the task value p is run (runTask(p), or a helper that receives p) only after a step that drains
// the write buffer (calls TryPop, or reaches it) - or the helper that receives p establishes that order itself.
func drainBeforeTask(fn *ssa.Function, p ssa.Value, rt, tryPop *ssa.Function, depth int) bool {
	if depth > 2 || len(fn.Blocks) == 0 {
		return false
	}
	var r ssa.Instruction
	var helper *ssa.Function
	hi := -1
	allInstrs(fn, func(in ssa.Instruction) {
		cc := callCommon(in)
		g := calleeOf(in)
		if cc == nil || g == nil {
			return
		}
		for i, a := range cc.Args {
			if a != p {
				continue
			}
			if origin(g) == origin(rt) {
				r, helper = in, nil
			} else if r == nil && g.Pkg != nil && strings.HasPrefix(g.Pkg.Pkg.Path(), modPath) && len(origin(g).Blocks) > 0 {
				r, helper, hi = in, origin(g), i
			}
		}
	})
	if r == nil {
		return false
	}
	pops := func(in ssa.Instruction) bool { return isCallTo(in, tryPop) }
	found := false
	allInstrs(fn, func(in ssa.Instruction) {
		if in == r || found {
			return
		}
		drains := pops(in)
		if c := calleeOf(in); !drains && c != nil && c.Pkg != nil && strings.HasPrefix(c.Pkg.Pkg.Path(), modPath) && origin(c) != origin(rt) {
			drains, _ = reachesInstr(c, pops, map[*ssa.Function]bool{}, nil)
		}
		if drains && instrDominates(in, r) {
			found = true
		}
	})
	if found {
		return true
	}
	if helper != nil && hi < len(helper.Params) {
		return drainBeforeTask(helper, helper.Params[hi], rt, tryPop, depth+1)
	}
	return false
}

// ruleC16Consume: an event taken out of the write buffer is applied.
func ruleC16Consume(cx *Ctx) {
	const rule = "C16.consume"
	cx.R.Rule(rule, 1, "every task popped from the write buffer (non-nil result of TryPop on cache.writeBuffer) is handed to runTask before the consumer pops again, returns or panics: a popped event is never dropped")
	wb := cx.needField(rule, "", "cache", "writeBuffer")
	tryPop := cx.need(rule, queuePkg, "MPSC", "TryPop")
	rt := cx.need(rule, "", "cache", "runTask")
	if wb == nil || tryPop == nil || rt == nil {
		return
	}
	n := 0
	for _, fn := range cx.P.FuncsOfPkg("") {
		name := funcName(fn)
		allInstrs(fn, func(in ssa.Instruction) {
			c, ok := in.(*ssa.Call)
			if !ok || !isCallTo(c, tryPop) || !sameField(recvField(c), wb) {
				return
			}
			n++
			// values that carry the popped task: the call and phis over it
			carries := map[ssa.Value]bool{c: true}
			for changed := true; changed; {
				changed = false
				for v := range carries {
					for _, u := range usesOf(v) {
						if ph, ok := u.(*ssa.Phi); ok && !carries[ph] {
							carries[ph] = true
							changed = true
						}
					}
				}
			}
			isRun := func(x ssa.Instruction) bool {
				if !isCallTo(x, rt) {
					return false
				}
				a := callArgs(x)
				return len(a) == 1 && carries[a[0]]
			}
			// edges on which the result is nil need no consumer
			cut := map[edge]bool{}
			allInstrs(fn, func(x ssa.Instruction) {
				if ifi, ok := x.(*ssa.If); ok {
					if v, isEq, ok := nilCmp(ifi.Cond); ok && carries[v] {
						idx := 0
						if !isEq {
							idx = 1
						}
						cut[edge{ifi.Block(), idx}] = true
					}
				}
			})
			visited := map[*ssa.BasicBlock]bool{}
			var witness []string
			var walk func(b *ssa.BasicBlock, i int, path []string) bool
			walk = func(b *ssa.BasicBlock, i int, path []string) bool {
				path = append(path, blockDesc(b))
				for ; i < len(b.Instrs); i++ {
					x := b.Instrs[i]
					if isRun(x) {
						return true
					}
					bad := ""
					switch x.(type) {
					case *ssa.Return:
						bad = "-> return"
					case *ssa.Panic:
						bad = "-> panic"
					}
					if x == ssa.Instruction(c) {
						bad = "-> next pop"
					}
					if bad != "" {
						witness = append(append([]string{}, path...), bad)
						return false
					}
				}
				for si, s := range b.Succs {
					if cut[edge{b, si}] {
						continue
					}
					if s == c.Block() {
						// back to the pop: its block is walked from the top up to the pop itself
						if !walk(s, 0, path) {
							return false
						}
						continue
					}
					if visited[s] {
						continue
					}
					visited[s] = true
					if !walk(s, 0, path) {
						return false
					}
				}
				return true
			}
			pt := ptOf(c)
			ok2 := walk(pt.B, pt.I+1, nil)
			cx.R.Check(ok2, rule, name, fmt.Sprintf("pop #%d applied", n), cx.P.where(c), "a popped task reaches runTask on every path before the next pop / return / panic", witness...)
		})
	}
}

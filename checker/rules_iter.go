package main

import (
	"fmt"
	"go/ast"
	"go/types"
	"sort"
	"strings"
)

// Rules on iteration, decided with ITERSIM (itersim.go).
//
//   C05.combine  the sequence combinators of package xiter hand on every element of every input exactly once and
//                nothing after the consumer said stop (bounded: up to 3 inputs of up to 2 elements, every comparator
//                outcome, every stop point);
//   C05.walk     the iterators of the intrusive list yield exactly the members of the list, each once (canonical lists
//                of 0..3 members, both link families, every stop point);
//   C01.iterate  every iterator of the cache (nodes, entries, All, Keys, Values, the eviction-order iterator in both
//                directions) yields, for every element of every source it draws from - the table's Range, the three
//                queues of the policy - that passes the liveness and expiry tests, exactly one value, which is the
//                projection its signature promises (the node, its key, its value, key and value, its Entry snapshot);
//                elements failing a test yield nothing; no element is yielded without both tests; nothing is yielded
//                after the consumer said stop.

func init() {
	alsoUnder(ruleIterCombine, "C05", "C19")
	alsoUnder(ruleIterWalk, "C05", "C19")
	alsoUnder(ruleIterCache, "C01", "C03", "C05", "C15", "C19")
}

func iterDiscover(cx *Ctx, pkgSuffix, recvName string, want func(fd *ast.FuncDecl, sig *types.Signature) bool) []*itDeclRef {
	var out []*itDeclRef
	p := cx.P.byPkg[pkgPath(pkgSuffix)]
	if p == nil {
		return nil
	}
	for _, f := range p.Syntax {
		if strings.HasSuffix(cx.P.Fset.Position(f.Pos()).Filename, "_test.go") {
			continue
		}
		for _, d := range f.Decls {
			fd, ok := d.(*ast.FuncDecl)
			if !ok || fd.Body == nil {
				continue
			}
			obj, _ := p.TypesInfo.Defs[fd.Name].(*types.Func)
			if obj == nil {
				continue
			}
			sig := obj.Type().(*types.Signature)
			rn := ""
			if sig.Recv() != nil {
				t := sig.Recv().Type()
				if pt, ok := t.(*types.Pointer); ok {
					t = pt.Elem()
				}
				if n, ok := t.(*types.Named); ok {
					rn = n.Obj().Name()
				}
			}
			if rn != recvName {
				continue
			}
			if want(fd, sig) {
				out = append(out, &itDeclRef{decl: fd, pkg: p})
			}
		}
	}
	sort.Slice(out, func(i, j int) bool { return out[i].decl.Name.Name < out[j].decl.Name.Name })
	return out
}

func returnsSeq(sig *types.Signature) bool {
	return sig.Results().Len() == 1 && isIterSeqType(sig.Results().At(0).Type())
}

func declName(r *itDeclRef) string {
	fd := r.decl
	if fd.Recv != nil && len(fd.Recv.List) == 1 {
		t := fd.Recv.List[0].Type
		star := ""
		if s, ok := t.(*ast.StarExpr); ok {
			t = s.X
			star = "*"
		}
		if ix, ok := t.(*ast.IndexListExpr); ok {
			t = ix.X
		}
		if ix, ok := t.(*ast.IndexExpr); ok {
			t = ix.X
		}
		if id, ok := t.(*ast.Ident); ok {
			return "(" + star + id.Name + ")." + fd.Name.Name
		}
	}
	return fd.Name.Name
}

// ---- C05.combine ----
func ruleIterCombine(cx *Ctx) {
	const rule = "C05.combine"
	cx.R.Rule(rule, 1, "a sequence combinator (package xiter) yields every element of every input sequence exactly once when the consumer never stops, and after the consumer returned false yields nothing more; elements it yields are elements of its inputs (ITERSIM: up to 3 inputs of up to 2 elements, every comparator outcome and stop point)")
	decls := itDecls(cx.P)
	for _, ref := range iterDiscover(cx, "internal/xiter", "", func(fd *ast.FuncDecl, sig *types.Signature) bool { return returnsSeq(sig) }) {
		ref := ref
		obj := ref.pkg.TypesInfo.Defs[ref.decl.Name].(*types.Func)
		sig := obj.Type().(*types.Signature)
		name := declName(ref)
		where := cx.P.Pos(ref.decl.Pos())
		var viol []string
		lenMax := 2
		if cx.Tier == "thorough" {
			lenMax = 3
		}
		runs, bad := itExplore(cx.P, decls, lenMax, func(it *itInterp) {
			var args []any
			total := 0
			for i := 0; i < sig.Params().Len(); i++ {
				p := sig.Params().At(i)
				t := p.Type()
				if sig.Variadic() && i == sig.Params().Len()-1 {
					el := t.(*types.Slice).Elem()
					if !isIterSeqType(el) {
						it.unsupported("variadic parameter %s is not a sequence", p.Name())
					}
					k := it.choose(4, "k")
					for j := 0; j < k; j++ {
						s := it.newSource(fmt.Sprintf("%s%d", p.Name(), j), it.choose(3, "len"))
						total += len(s.elems)
						args = append(args, s)
					}
					continue
				}
				switch {
				case isIterSeqType(t):
					s := it.newSource(p.Name(), it.choose(lenMax+1, "len"))
					total += len(s.elems)
					args = append(args, s)
				case isFuncType(t):
					fs := t.Underlying().(*types.Signature)
					pn := p.Name()
					args = append(args, &itFunc{name: pn, builtin: func(a []any) any {
						if fs.Results().Len() == 1 {
							if b, ok := fs.Results().At(0).Type().Underlying().(*types.Basic); ok {
								if b.Info()&types.IsInteger != 0 {
									return int64(it.choose(3, "cmp")) - 1
								}
								if b.Info()&types.IsBoolean != 0 {
									return it.choose(2, "pred") == 1
								}
							}
						}
						// a projection: an opaque function of its arguments
						return &itSym{fn: pn, args: a}
					}})
				default:
					it.unsupported("parameter %s of type %s", p.Name(), t)
				}
			}
			it.stopAt = it.choose(total+1, "stop")
			seq := it.callFunc(&itFunc{name: name, decl: ref.decl, info: ref.pkg.TypesInfo}, args)
			it.callValue(seq, []any{it.consumer()})
		}, func(it *itInterp) {
			if len(viol) >= 3 {
				return
			}
			var all []string
			for _, s := range it.sources {
				for _, e := range s.elems {
					all = append(all, itStr(e))
				}
			}
			if msg := iterJudge(it, all, nil, func(e string, args []any) bool {
				if len(args) != 1 {
					return false
				}
				if itStr(args[0]) == e {
					return true
				}
				// a mapping combinator: the callback's image of exactly this element
				if sy, ok := args[0].(*itSym); ok && len(sy.args) == 1 && itStr(sy.args[0]) == e {
					return true
				}
				return false
			}); msg != "" {
				viol = append(viol, msg+" — inputs "+iterSources(it)+fmt.Sprintf(", consumer stops at call %d", it.stopAt))
			}
		})
		iterReport(cx, rule, name, where, runs, bad, viol)
	}
}

func iterSources(it *itInterp) string {
	var ss []string
	for _, s := range it.sources {
		ss = append(ss, fmt.Sprintf("%s[%d]", s.name, len(s.elems)))
	}
	return strings.Join(ss, " ")
}

// iterJudge compares the yields of one run with the specification. all: the source elements; pass: per element
// "pass" / "fail" / "" (not tested) or nil when the iterator has no filter; match: is `args` the projection of e.
func iterJudge(it *itInterp, all []string, pass map[string]string, match func(e string, args []any) bool) string {
	if len(it.notes) > 0 {
		return it.notes[0]
	}
	count := map[string]int{}
	for i, y := range it.yields {
		if y.stopped {
			return "a value is yielded after the consumer returned false"
		}
		hit := ""
		for _, e := range all {
			if match(e, y.args) {
				hit = e
				break
			}
		}
		if hit == "" {
			as := make([]string, len(y.args))
			for j, a := range y.args {
				as[j] = itStr(a)
			}
			return fmt.Sprintf("yield #%d hands on (%s), which is not the expected projection of any source element", i+1, strings.Join(as, ", "))
		}
		count[hit]++
		if count[hit] > 1 {
			return fmt.Sprintf("element %s is yielded twice", hit)
		}
		if pass != nil {
			switch pass[hit] {
			case "fail":
				return fmt.Sprintf("element %s is yielded although it is dead or expired on this path", hit)
			case "":
				return fmt.Sprintf("element %s is yielded without both the liveness and the expiry test", hit)
			}
		}
	}
	if it.stopAt > 0 && it.stopped {
		return ""
	}
	for _, e := range all {
		if pass != nil && pass[e] == "fail" {
			continue
		}
		if count[e] == 0 {
			return fmt.Sprintf("element %s of the source is never yielded although the consumer never stopped", e)
		}
	}
	return ""
}

func iterReport(cx *Ctx, rule, name, where string, runs int, bad string, viol []string) {
	cx.R.AddInt("itersim_runs", runs)
	switch {
	case bad != "":
		cx.R.Undecided(rule, name, "interpreted", where, "ITERSIM could not interpret the iterator: "+bad)
	case len(viol) > 0:
		cx.R.Violate(rule, name, "yields exactly the expected elements", where, viol[0], viol...)
	default:
		cx.R.OK(rule, name, "yields exactly the expected elements", where, fmt.Sprintf("%d runs (all branch outcomes within the bound)", runs))
	}
}

// ---- C05.walk ----
func ruleIterWalk(cx *Ctx) {
	const rule = "C05.walk"
	cx.R.Rule(rule, 1, "an iterator of the intrusive list (a method of deque.Linked returning a sequence) yields exactly the members of the list, each once, and nothing after the consumer returned false (ITERSIM on canonical lists of 0..3 members, both link families, every stop point)")
	decls := itDecls(cx.P)
	_, st := cx.P.Struct("internal/deque", "Linked")
	if st == nil {
		cx.R.Undecided(rule, "Linked", "anchor", "", "type deque.Linked not found")
		return
	}
	for _, ref := range iterDiscover(cx, "internal/deque", "Linked", func(fd *ast.FuncDecl, sig *types.Signature) bool {
		return returnsSeq(sig) && sig.Params().Len() == 0
	}) {
		ref := ref
		name := declName(ref)
		where := cx.P.Pos(ref.decl.Pos())
		var viol []string
		runs, bad := itExplore(cx.P, decls, 2, func(it *itInterp) {
			maxMembers := 3
			if cx.Tier == "thorough" {
				maxMembers = 5
			}
			m := it.choose(maxMembers+1, "members")
			isExp := it.choose(2, "isExp") == 1
			d := &itObj{name: "list", fields: map[string]any{}}
			for i := 0; i < st.NumFields(); i++ {
				d.fields[st.Field(i).Name()] = it.zero(st.Field(i).Type())
			}
			src := &itSeq{name: "members"}
			var nodes []*itObj
			for i := 0; i < m; i++ {
				n := &itObj{name: fmt.Sprintf("m%d", i+1), elem: true, fields: map[string]any{"m:Next": itNil{}, "m:Prev": itNil{}, "m:NextExp": itNil{}, "m:PrevExp": itNil{}}}
				nodes = append(nodes, n)
				src.elems = append(src.elems, n)
			}
			it.sources = append(it.sources, src)
			nx, pv := "m:Next", "m:Prev"
			if isExp {
				nx, pv = "m:NextExp", "m:PrevExp"
			}
			for i, n := range nodes {
				if i > 0 {
					n.fields[pv] = nodes[i-1]
				}
				if i+1 < m {
					n.fields[nx] = nodes[i+1]
				}
			}
			// the header's fields by type: bool = link family, int = length, node-typed = head / tail in declaration order
			nodeFields := 0
			for i := 0; i < st.NumFields(); i++ {
				f := st.Field(i)
				switch u := f.Type().Underlying().(type) {
				case *types.Basic:
					if u.Info()&types.IsBoolean != 0 {
						d.fields[f.Name()] = isExp
					} else if u.Info()&types.IsInteger != 0 {
						d.fields[f.Name()] = int64(m)
					}
				default:
					var v any = itNil{}
					if m > 0 {
						if nodeFields == 0 {
							v = nodes[0]
						} else {
							v = nodes[m-1]
						}
					}
					if strings.Contains(strings.ToLower(f.Name()), "tail") && m > 0 {
						v = nodes[m-1]
					} else if strings.Contains(strings.ToLower(f.Name()), "head") && m > 0 {
						v = nodes[0]
					}
					d.fields[f.Name()] = v
					nodeFields++
				}
			}
			it.stopAt = it.choose(m+1, "stop")
			seq := it.callFunc(&itFunc{name: name, decl: ref.decl, info: ref.pkg.TypesInfo, recv: d, hasRecv: true}, nil)
			it.callValue(seq, []any{it.consumer()})
		}, func(it *itInterp) {
			if len(viol) >= 3 {
				return
			}
			var all []string
			for _, e := range it.sources[0].elems {
				all = append(all, itStr(e))
			}
			if msg := iterJudge(it, all, nil, func(e string, args []any) bool { return len(args) == 1 && itStr(args[0]) == e }); msg != "" {
				viol = append(viol, fmt.Sprintf("%s — list of %d member(s), consumer stops at call %d", msg, len(all), it.stopAt))
			}
		})
		iterReport(cx, rule, name, where, runs, bad, viol)
	}
}

// ---- C01.iterate ----
func ruleIterCache(cx *Ctx) {
	const rule = "C01.iterate"
	cx.R.Rule(rule, 4, "every iterator of the cache yields, for each element of each source it draws from (the table's Range, the queues of the policy) that is alive and unexpired on that path, exactly one value - the projection its signature promises (node, key, value, key+value, Entry snapshot of that node) - yields nothing for an element that fails a test, no element without both tests, and nothing after the consumer returned false (ITERSIM: sources of up to 2 elements, every outcome of the tests, of the configuration flags, of the comparators, every stop point)")
	decls := itDecls(cx.P)
	root := cx.P.byPkg[modPath]
	if root == nil {
		cx.R.Undecided(rule, "cache", "anchor", "", "root package not loaded")
		return
	}
	for _, ref := range iterDiscover(cx, "", "cache", func(fd *ast.FuncDecl, sig *types.Signature) bool {
		// the iterators of the cache's API (the helpers they are built from are decided through them)
		if !returnsSeq(sig) || !ast.IsExported(fd.Name.Name) {
			return false
		}
		for i := 0; i < sig.Params().Len(); i++ {
			b, ok := sig.Params().At(i).Type().Underlying().(*types.Basic)
			if !ok || b.Info()&types.IsBoolean == 0 {
				return false
			}
		}
		return true
	}) {
		ref := ref
		obj := ref.pkg.TypesInfo.Defs[ref.decl.Name].(*types.Func)
		sig := obj.Type().(*types.Signature)
		name := declName(ref)
		where := cx.P.Pos(ref.decl.Pos())
		kind := iterProjection(sig)
		if kind == "" {
			cx.R.Undecided(rule, name, "projection", where, "the element type of the returned sequence is not one of node / key / value / key+value / Entry")
			continue
		}
		var viol []string
		maxSources := 0
		// which sources each complete run walked: the table, or the lists behind the policy's fields
		lists := map[string]bool{}
		type walked struct {
			table bool
			lists map[string]bool
			desc  string
		}
		var complete []walked
		explore := func(srcLen int) (int, string) {
			return itExplore(cx.P, decls, srcLen, func(it *itInterp) {
				var args []any
				for i := 0; i < sig.Params().Len(); i++ {
					args = append(args, it.choose(2, "param") == 1)
				}
				// the consumer never stops, or stops at its first or second call
				it.stopAt = it.choose(3, "stop")
				seq := it.callFunc(&itFunc{name: name, decl: ref.decl, info: ref.pkg.TypesInfo, recv: &itSym{fn: "c"}, hasRecv: true}, args)
				it.callValue(seq, []any{it.consumer()})
			}, func(it *itInterp) {
				if len(it.sources) > maxSources {
					maxSources = len(it.sources)
				}
				if !it.stopped {
					w := walked{lists: map[string]bool{}, desc: fmt.Sprintf("flags %v", iterFlags(it))}
					for _, s := range it.sources {
						if s.kind == "table" {
							w.table = true
						} else if s.kind == "list" {
							w.lists[s.name] = true
							lists[s.name] = true
						}
					}
					complete = append(complete, w)
				}
				if len(viol) >= 3 {
					return
				}
				var all []string
				seen := map[string]bool{}
				pass := map[string]string{}
				for _, s := range it.sources {
					for _, e := range s.elems {
						k := itStr(e)
						if seen[k] {
							continue
						}
						seen[k] = true
						all = append(all, k)
						t := it.tested[k]
						switch {
						case strings.Contains(t, "IsAlive=false") || strings.Contains(t, "HasExpired=true") || strings.Contains(t, "IsDead=true") || strings.Contains(t, "IsRetired=true"):
							pass[k] = "fail"
						case strings.Contains(t, "IsAlive=true") && strings.Contains(t, "HasExpired=false"):
							pass[k] = "pass"
						}
					}
				}
				if msg := iterJudge(it, all, pass, func(e string, a []any) bool { return iterMatches(kind, e, a) }); msg != "" {
					viol = append(viol, msg+" — sources "+iterSources(it)+fmt.Sprintf(", tests %v, consumer stops at call %d", iterTests(it), it.stopAt))
				}
			})
		}
		// sources of one element first; an iterator that draws from a single source is then re-run with two
		runs, bad := explore(1)
		if bad == "" && maxSources <= 1 {
			r2, b2 := explore(2)
			runs += r2
			bad = b2
			if bad == "" && cx.Tier == "thorough" {
				r3, b3 := explore(3)
				runs += r3
				bad = b3
			}
		} else if bad == "" && cx.Tier == "thorough" {
			// several sources: two elements each in the thorough tier
			r2, b2 := explore(2)
			runs += r2
			if b2 == "" || !strings.Contains(b2, "more than") {
				bad = b2
			}
		}
		// every complete run walks the whole cache: the table, or every list any run of this iterator walks
		for _, w := range complete {
			if len(viol) >= 3 {
				break
			}
			if w.table {
				continue
			}
			missing := []string{}
			for l := range lists {
				if !w.lists[l] {
					missing = append(missing, l)
				}
			}
			sort.Strings(missing)
			if len(w.lists) == 0 {
				viol = append(viol, "on a path on which the consumer never stops the iterator walks neither the table nor the policy's queues (it yields nothing whatever the cache holds) — "+w.desc)
			} else if len(missing) > 0 {
				viol = append(viol, fmt.Sprintf("on a path on which the consumer never stops the iterator does not walk %s, which other paths of it do walk — %s", strings.Join(missing, ", "), w.desc))
			}
		}
		iterReport(cx, rule, name+" ("+kind+")", where, runs, bad, viol)
	}
}

func iterFlags(it *itInterp) string {
	var ks []string
	for k, v := range it.memo {
		if strings.HasPrefix(k, "flag:") {
			ks = append(ks, fmt.Sprintf("%s=%v", strings.TrimPrefix(k, "flag:"), v.(int) == 1))
		}
	}
	sort.Strings(ks)
	return strings.Join(ks, " ")
}

func iterTests(it *itInterp) string {
	var ks []string
	for k, v := range it.tested {
		ks = append(ks, k+":"+v)
	}
	sort.Strings(ks)
	return strings.Join(ks, " ")
}

func iterProjection(sig *types.Signature) string {
	n, ok := types.Unalias(sig.Results().At(0).Type()).(*types.Named)
	if !ok || n.TypeArgs() == nil {
		return ""
	}
	var recvParams *types.TypeParamList
	if sig.Recv() != nil {
		recvParams = sig.RecvTypeParams()
	}
	idx := func(t types.Type) int {
		tp, ok := t.(*types.TypeParam)
		if !ok || recvParams == nil {
			return -1
		}
		for i := 0; i < recvParams.Len(); i++ {
			if recvParams.At(i) == tp {
				return i
			}
		}
		return -1
	}
	ta := n.TypeArgs()
	if ta.Len() == 2 {
		if idx(ta.At(0)) == 0 && idx(ta.At(1)) == 1 {
			return "key+value"
		}
		return ""
	}
	t := ta.At(0)
	switch idx(t) {
	case 0:
		return "key"
	case 1:
		return "value"
	}
	if nt, ok := types.Unalias(t).(*types.Named); ok {
		switch nt.Obj().Name() {
		case "Entry":
			return "entry"
		case "Node":
			return "node"
		}
	}
	return ""
}

func iterMatches(kind, e string, a []any) bool {
	isCall := func(v any, fn string) bool {
		s, ok := v.(*itSym)
		return ok && s.fn == fn && len(s.args) == 1 && itStr(s.args[0]) == e
	}
	switch kind {
	case "node":
		return len(a) == 1 && itStr(a[0]) == e
	case "key":
		return len(a) == 1 && isCall(a[0], "Key")
	case "value":
		return len(a) == 1 && isCall(a[0], "Value")
	case "key+value":
		return len(a) == 2 && isCall(a[0], "Key") && isCall(a[1], "Value")
	case "entry":
		// the snapshot helper applied to that node (and to no other element)
		if len(a) != 1 {
			return false
		}
		s, ok := a[0].(*itSym)
		if !ok {
			return false
		}
		hit := false
		for _, x := range s.args {
			if itStr(x) == e {
				hit = true
			} else if xs, ok := x.(*itSym); ok && strings.Contains(xs.fn, "#") {
				return false
			}
		}
		return hit
	}
	return false
}

package main

import (
	"fmt"
	"go/constant"
	"go/token"
	"go/types"
	"math/bits"
	"strings"

	"golang.org/x/tools/go/ssa"
)

// ruleC13Tables: the timer wheel's level tables agree with each other and with the code that indexes them.
// The tables are package variables initialised from constants through pure helpers; their values are obtained by
// constant propagation over the package initialiser (RoundUpPowerOf264, TrailingZeros64 and Duration.Nanoseconds
// folded by their definition), nothing is executed.
func ruleC13Tables(cx *Ctx) {
	const rule = "C13.tables"
	cx.R.Rule(rule, 6, "wheel tables: bucket counts and spans are powers of two, shift[k] = log2(spans[k]), a level holds every duration it is chosen for within one revolution (spans[k+1] <= spans[k]*buckets[k]), the first span is the advertised tick (2^30 ns), the last level has one bucket; findBucket, the sweep and the constructor index spans/shift/buckets/wheel with the same level (spans one ahead) - a timer filed or swept with another level's geometry is missed for up to a revolution")
	pkg := cx.P.byPkg[pkgPath(expPkg)]
	if pkg == nil {
		cx.R.Undecided(rule, "expiration", "package", "-", "package does not resolve")
		return
	}
	sp := cx.P.Prog.Package(pkg.Types)
	if sp == nil || sp.Func("init") == nil {
		cx.R.Undecided(rule, "expiration", "init", "-", "package initialiser not available")
		return
	}
	init := sp.Func("init")
	globals := map[string]*ssa.Global{}
	for _, n := range []string{"buckets", "spans", "shift"} {
		g, _ := sp.Members[n].(*ssa.Global)
		if g == nil {
			cx.R.Undecided(rule, n, "anchor", "-", "table "+n+" does not resolve")
			return
		}
		globals[n] = g
	}
	// ---- constant propagation over init
	tables := map[*ssa.Global][]uint64{}
	known := map[*ssa.Global][]bool{}
	backing := map[ssa.Value]*ssa.Global{} // *[N]uint64 alloc -> global it becomes
	var eval func(v ssa.Value, depth int) (uint64, bool)
	elemOf := func(addr ssa.Value) (base ssa.Value, idx int, ok bool) {
		ia, isIA := addr.(*ssa.IndexAddr)
		if !isIA {
			return nil, 0, false
		}
		c, isC := ia.Index.(*ssa.Const)
		if !isC {
			return nil, 0, false
		}
		i, _ := constant.Int64Val(c.Value)
		return ia.X, int(i), true
	}
	allocVals := map[ssa.Value]map[int]ssa.Value{}
	allocLen := map[ssa.Value]int{}
	for _, b := range init.Blocks {
		for _, in := range b.Instrs {
			switch x := in.(type) {
			case *ssa.Store:
				if base, i, ok := elemOf(x.Addr); ok {
					if _, isAlloc := base.(*ssa.Alloc); isAlloc {
						if allocVals[base] == nil {
							allocVals[base] = map[int]ssa.Value{}
						}
						allocVals[base][i] = x.Val
					}
				}
				if g, ok := x.Addr.(*ssa.Global); ok {
					if sl, ok := x.Val.(*ssa.Slice); ok {
						if a, ok := sl.X.(*ssa.Alloc); ok {
							backing[a] = g
						}
					}
				}
			case *ssa.Alloc:
				if pt, ok := x.Type().Underlying().(*types.Pointer); ok {
					if arr, ok := pt.Elem().Underlying().(*types.Array); ok {
						allocLen[x] = int(arr.Len())
					}
				}
			}
		}
	}
	eval = func(v ssa.Value, depth int) (uint64, bool) {
		if depth > 12 {
			return 0, false
		}
		switch x := v.(type) {
		case *ssa.Const:
			if x.Value == nil {
				return 0, false
			}
			if u, ok := constant.Uint64Val(constant.ToInt(x.Value)); ok {
				return u, true
			}
			if i, ok := constant.Int64Val(constant.ToInt(x.Value)); ok {
				return uint64(i), true
			}
		case *ssa.Convert:
			return eval(x.X, depth+1)
		case *ssa.BinOp:
			a, ok1 := eval(x.X, depth+1)
			b, ok2 := eval(x.Y, depth+1)
			if ok1 && ok2 {
				switch x.Op {
				case token.MUL:
					return a * b, true
				case token.ADD:
					return a + b, true
				case token.SUB:
					return a - b, true
				case token.SHL:
					return a << b, true
				}
			}
		case *ssa.UnOp:
			if x.Op == token.MUL {
				// element of a table already evaluated: *(&(*global)[i])
				if base, i, ok := elemOf(x.X); ok {
					if ld, ok := base.(*ssa.UnOp); ok && ld.Op == token.MUL {
						if g, ok := ld.X.(*ssa.Global); ok && i < len(tables[g]) && known[g][i] {
							return tables[g][i], true
						}
					}
				}
			}
		case *ssa.Call:
			callee := x.Call.StaticCallee()
			if callee == nil || len(x.Call.Args) != 1 {
				return 0, false
			}
			a, ok := eval(x.Call.Args[0], depth+1)
			if !ok {
				return 0, false
			}
			switch {
			case callee.Pkg != nil && strings.HasSuffix(callee.Pkg.Pkg.Path(), "internal/xmath") && strings.HasPrefix(callee.Name(), "RoundUpPowerOf2"):
				if a <= 1 {
					return 1, true
				}
				return 1 << uint(bits.Len64(a-1)), true
			case callee.Pkg != nil && callee.Pkg.Pkg.Path() == "math/bits" && callee.Name() == "TrailingZeros64":
				return uint64(bits.TrailingZeros64(a)), true
			case callee.Name() == "Nanoseconds" && callee.Pkg != nil && callee.Pkg.Pkg.Path() == "time":
				return a, true
			}
		}
		return 0, false
	}
	// evaluate in initialisation order: buckets, spans, shift
	where := cx.P.Pos(init.Pos())
	if !init.Pos().IsValid() {
		where = "internal/expiration/variable.go"
	}
	for _, n := range []string{"buckets", "spans", "shift"} {
		g := globals[n]
		var alloc ssa.Value
		for a, gg := range backing {
			if gg == g {
				alloc = a
			}
		}
		if alloc == nil {
			cx.R.Undecided(rule, n, "initialiser", where, "table "+n+" is not initialised from a slice literal; constant propagation does not apply")
			return
		}
		L := allocLen[alloc]
		tables[g] = make([]uint64, L)
		known[g] = make([]bool, L)
		for i := 0; i < L; i++ {
			if v, ok := allocVals[alloc][i]; ok {
				if u, ok := eval(v, 0); ok {
					tables[g][i], known[g][i] = u, true
				}
			} else {
				known[g][i] = true // zero value
			}
		}
		for i := 0; i < L; i++ {
			if !known[g][i] {
				cx.R.Undecided(rule, n, fmt.Sprintf("%s[%d]", n, i), where, "element is not a foldable constant expression")
				return
			}
		}
	}
	bk, spn, sh := tables[globals["buckets"]], tables[globals["spans"]], tables[globals["shift"]]
	pow2 := func(x uint64) bool { return x != 0 && x&(x-1) == 0 }
	cx.R.Check(len(spn) == len(bk)+1 && len(sh) == len(bk) && len(bk) >= 2, rule, "expiration", "table lengths", where, fmt.Sprintf("len(spans) = len(buckets)+1 and len(shift) = len(buckets) (got %d, %d, %d)", len(bk), len(spn), len(sh)))
	if !(len(spn) == len(bk)+1 && len(sh) == len(bk) && len(bk) >= 2) {
		return
	}
	for i := range bk {
		cx.R.Check(pow2(bk[i]), rule, "expiration", fmt.Sprintf("buckets[%d] power of two", i), where, fmt.Sprintf("slot = ticks & (buckets-1) needs a power of two (got %d)", bk[i]))
		cx.R.Check(pow2(spn[i]) && sh[i] == uint64(bits.TrailingZeros64(spn[i])), rule, "expiration", fmt.Sprintf("shift[%d] = log2(spans[%d])", i, i), where, fmt.Sprintf("ticks = time >> shift must be time / span (span %d, shift %d)", spn[i], sh[i]))
		if i+1 < len(bk) {
			prod := spn[i] * bk[i]
			cx.R.Check(spn[i+1] <= prod && spn[i+1] > spn[i], rule, "expiration", fmt.Sprintf("level %d holds durations below spans[%d]", i, i+1), where, fmt.Sprintf("spans[%d]=%d <= spans[%d]*buckets[%d]=%d: a timer filed in level %d is at most one revolution ahead", i+1, spn[i+1], i, i, prod, i))
		}
	}
	cx.R.Check(spn[0] == 1<<30, rule, "expiration", "first tick", where, fmt.Sprintf("the finest tick is 2^30 ns (about 1.07 s), got %d", spn[0]))
	cx.R.Check(bk[len(bk)-1] == 1, rule, "expiration", "last level", where, "the overflow level has a single bucket (findBucket returns wheel[last][0])")

	// ---- index agreement in the code
	isTable := func(v ssa.Value, n string) bool {
		ld, ok := v.(*ssa.UnOp)
		if !ok || ld.Op != token.MUL {
			return false
		}
		g, ok := ld.X.(*ssa.Global)
		return ok && g == globals[n]
	}
	wheelF := cx.needField(rule, expPkg, "Variable", "wheel")
	for _, fn := range cx.P.FuncsOfPkg(expPkg) {
		if fn.Name() == "init" {
			continue
		}
		// collect level indices per table in this function
		levels := map[string][]ssa.Value{}
		allInstrs(fn, func(in ssa.Instruction) {
			ia, ok := in.(*ssa.IndexAddr)
			if !ok {
				return
			}
			for _, n := range []string{"buckets", "spans", "shift"} {
				if isTable(ia.X, n) {
					role := n
					if n == "spans" && usedAsDivisor(ia) {
						// x / spans[level] is x >> shift[level] (C13.tables: spans[k] = 1 << shift[k]): the level's own span
						role = "shift"
					}
					levels[role] = append(levels[role], ia.Index)
				}
			}
			if wheelF != nil && sameField(fieldOf(ia.X), wheelF) {
				levels["wheel"] = append(levels["wheel"], ia.Index)
			}
		})
		if len(levels["shift"])+len(levels["buckets"])+len(levels["spans"]) == 0 {
			continue
		}
		name := funcName(fn)
		// the level variable: the index used for shift or buckets
		var level ssa.Value
		for _, n := range []string{"shift", "buckets", "wheel"} {
			for _, v := range levels[n] {
				if _, isConst := v.(*ssa.Const); !isConst && level == nil {
					level = v
				}
			}
		}
		if level == nil {
			continue
		}
		same := func(v ssa.Value) bool {
			if stripConv(v) == stripConv(level) {
				return true
			}
			// the same level read twice from a field of a by-value parameter (sweep.level): two loads, one term
			if _, isLoad := stripConv(v).(*ssa.UnOp); isLoad {
				if newTermBuilder().of(stripConv(v)).String() == newTermBuilder().of(stripConv(level)).String() {
					return true
				}
			}
			// the overflow level: len(table) - 1
			if b, ok := stripConv(v).(*ssa.BinOp); ok && b.Op == token.SUB {
				if c, isC := constInt(b.Y); isC && c == 1 {
					if call, ok := b.X.(*ssa.Call); ok {
						if bi, ok := call.Call.Value.(*ssa.Builtin); ok && bi.Name() == "len" {
							return true
						}
					}
				}
			}
			return false
		}
		for _, n := range []string{"shift", "buckets", "wheel"} {
			for k, v := range levels[n] {
				cx.R.Check(same(v), rule, name, fmt.Sprintf("%s indexed by the level #%d", n, k+1), cx.P.Pos(fn.Pos()), n+"[...] uses the same level as the other tables in this function")
			}
		}
		for k, v := range levels["spans"] {
			ok := false
			if b, isB := stripConv(v).(*ssa.BinOp); isB && b.Op == token.ADD {
				if c, isC := constInt(b.Y); isC && c == 1 && same(b.X) {
					ok = true
				}
			}
			cx.R.Check(ok, rule, name, fmt.Sprintf("spans indexed one level ahead #%d", k+1), cx.P.Pos(fn.Pos()), "a level is chosen by duration < spans[level+1]")
		}
	}
}

// usedAsDivisor: every use of the element loaded from this address is as the divisor of a division.
func usedAsDivisor(ia *ssa.IndexAddr) bool {
	n := 0
	for _, u := range usesOf(ia) {
		ld, ok := u.(*ssa.UnOp)
		if !ok || ld.Op != token.MUL {
			return false
		}
		for _, w := range usesOf(ld) {
			if _, isDbg := w.(*ssa.DebugRef); isDbg {
				continue
			}
			b, ok := w.(*ssa.BinOp)
			if !ok || b.Op != token.QUO || stripConv(b.Y) != ssa.Value(ld) {
				return false
			}
			n++
		}
	}
	return n > 0
}

package main

import (
	"encoding/json"
	"fmt"
	"os"
	"path/filepath"
	"sort"
	"strings"
	"time"
)

type Status int

const (
	Discharged Status = iota
	Violated
	Undecided
)

// Obligation is one construct a rule inspected and its verdict.
type Obligation struct {
	Rule   string // e.g. C14.resched
	Key    string // rule|function|construct -- position free, used to match known findings
	Where  string // file:line (diagnostic only)
	Detail string // what was found / expected
	Status Status
	Trace  []string // path of blocks / call chain / event trace for violations
}

type ruleInfo struct {
	name  string
	doc   string
	floor int
	count int
	viol  int
}

// Run collects the obligations of one property check.
type Run struct {
	Property string
	Tier     string
	Seed     int64
	start    time.Time
	obs      []Obligation
	rules    map[string]*ruleInfo
	order    []string
	assume   []string
	explain  string
	extra    map[string]any
	funcs    map[string]bool
	exhaust  bool
	known    []Finding
	out      []string
}

type Finding struct {
	Property string `json:"property"`
	Rule     string `json:"rule"`
	Key      string `json:"key"`
	Status   string `json:"status"` // known | fixed
	Commit   string `json:"commit,omitempty"`
	What     string `json:"what"`
}

func NewRun(property, tier string, seed int64) *Run {
	return &Run{Property: property, Tier: tier, Seed: seed, start: time.Now(), rules: map[string]*ruleInfo{}, extra: map[string]any{}, funcs: map[string]bool{}}
}

// Rule declares a rule, the minimum number of instances confirmed by hand on the pinned tree, and its text.
func (r *Run) Rule(name string, floor int, doc string) {
	if ri, ok := r.rules[name]; ok {
		if floor > ri.floor {
			ri.floor = floor
		}
		return
	}
	r.rules[name] = &ruleInfo{name: name, floor: floor, doc: doc}
	r.order = append(r.order, name)
}

func (r *Run) rule(name string) *ruleInfo {
	ri, ok := r.rules[name]
	if !ok {
		r.Rule(name, 0, "")
		ri = r.rules[name]
	}
	return ri
}

func mkKey(rule, fn, construct string) string { return rule + "|" + fn + "|" + construct }

func (r *Run) OK(rule, fn, construct, where, detail string) {
	ri := r.rule(rule)
	ri.count++
	r.funcs[fn] = true
	r.obs = append(r.obs, Obligation{Rule: rule, Key: mkKey(rule, fn, construct), Where: where, Detail: detail, Status: Discharged})
}

func (r *Run) Violate(rule, fn, construct, where, detail string, trace ...string) {
	ri := r.rule(rule)
	ri.count++
	ri.viol++
	r.funcs[fn] = true
	r.obs = append(r.obs, Obligation{Rule: rule, Key: mkKey(rule, fn, construct), Where: where, Detail: detail, Status: Violated, Trace: trace})
}

func (r *Run) Undecided(rule, fn, construct, where, detail string) {
	ri := r.rule(rule)
	ri.count++
	ri.viol++
	r.funcs[fn] = true
	r.obs = append(r.obs, Obligation{Rule: rule, Key: mkKey(rule, fn, construct), Where: where, Detail: "UNDECIDED: " + detail, Status: Undecided})
}

// Check is a convenience: discharge when ok, otherwise violate.
func (r *Run) Check(ok bool, rule, fn, construct, where, detail string, trace ...string) {
	if ok {
		r.OK(rule, fn, construct, where, detail)
	} else {
		r.Violate(rule, fn, construct, where, "NOT SATISFIED: "+detail, trace...)
	}
}

func (r *Run) Assume(s string) {
	for _, a := range r.assume {
		if a == s {
			return
		}
	}
	r.assume = append(r.assume, s)
}

func (r *Run) Explain(s string) {
	if r.explain != "" {
		r.explain += " "
	}
	r.explain += s
}

func (r *Run) Extra(k string, v any) { r.extra[k] = v }

func (r *Run) AddInt(k string, n int) {
	if v, ok := r.extra[k].(int); ok {
		r.extra[k] = v + n
	} else {
		r.extra[k] = n
	}
}

func loadFindings(path string) ([]Finding, error) {
	b, err := os.ReadFile(path)
	if err != nil {
		if os.IsNotExist(err) {
			return nil, nil
		}
		return nil, err
	}
	var f struct {
		Findings []Finding `json:"findings"`
	}
	if err := json.Unmarshal(b, &f); err != nil {
		return nil, err
	}
	return f.Findings, nil
}

// Finish applies floors, matches known findings, writes evidence and replay files, prints the verdict lines
// and returns the process exit code.
func (r *Run) Finish(verifDir string, writeEvidence bool) int {
	if os.Getenv("OTTERLINT_KEYS") != "" {
		for _, o := range r.obs {
			fmt.Println("KEY", o.Key, o.Status)
		}
	}
	// floor checks: a rule that matched fewer instances than confirmed by hand is a broken/undecided rule
	for _, name := range r.order {
		ri := r.rules[name]
		if ri.count < ri.floor {
			r.obs = append(r.obs, Obligation{
				Rule: name, Key: mkKey(name, "*", "floor"), Where: "-",
				Detail: fmt.Sprintf("UNDECIDED: rule matched %d instance(s), fewer than the %d confirmed on the pinned tree: an anchored mechanism vanished or changed shape", ri.count, ri.floor),
				Status: Undecided,
			})
			ri.viol++
		}
	}
	known := map[string]Finding{}
	for _, f := range r.known {
		if f.Status == "known" {
			known[f.Key] = f
		}
	}
	replayDir := filepath.Join(verifDir, "evidence", "replay")
	if writeEvidence {
		os.MkdirAll(replayDir, 0o755)
		old, _ := filepath.Glob(filepath.Join(replayDir, r.Property+"-*.txt"))
		for _, o := range old {
			os.Remove(o)
		}
	}
	nviol, nknown, ndis := 0, 0, 0
	seenKnown := map[string]bool{}
	seenViol := map[string]bool{}
	var samples []any
	var violSamples []any
	for _, o := range r.obs {
		if o.Status == Discharged {
			ndis++
			continue
		}
		if f, ok := known[o.Key]; ok {
			nknown++
			if !seenKnown[o.Key] {
				seenKnown[o.Key] = true
				fmt.Printf("KNOWN-FINDING: property=%s %s [%s at %s] %s\n", r.Property, f.What, o.Key, o.Where, oneLine(o.Detail))
			}
			continue
		}
		if seenViol[o.Key+o.Detail] {
			continue
		}
		seenViol[o.Key+o.Detail] = true
		nviol++
		path := filepath.Join(replayDir, fmt.Sprintf("%s-%d.txt", r.Property, nviol))
		if writeEvidence {
			var sb strings.Builder
			fmt.Fprintf(&sb, "property: %s\nrule: %s\nkey: %s\nwhere: %s\nfinding: %s\n", r.Property, o.Rule, o.Key, o.Where, o.Detail)
			if ri := r.rules[o.Rule]; ri != nil && ri.doc != "" {
				fmt.Fprintf(&sb, "rule text: %s\n", ri.doc)
			}
			if len(o.Trace) > 0 {
				sb.WriteString("trace:\n")
				for _, t := range o.Trace {
					sb.WriteString("  " + t + "\n")
				}
			}
			os.WriteFile(path, []byte(sb.String()), 0o644)
		}
		fmt.Printf("%s: %s: %s (%s)\n", o.Where, o.Rule, oneLine(o.Detail), o.Key)
		fmt.Printf("VIOLATION property=%s replay=%s\n", r.Property, path)
		if len(violSamples) < 10 {
			violSamples = append(violSamples, map[string]any{"rule": o.Rule, "key": o.Key, "where": o.Where, "finding": o.Detail})
		}
	}
	// samples: up to 3 discharged obligations per rule, so a reader can see what was inspected
	perRule := map[string]int{}
	for _, o := range r.obs {
		if o.Status != Discharged || perRule[o.Rule] >= 3 {
			continue
		}
		perRule[o.Rule]++
		samples = append(samples, map[string]any{"rule": o.Rule, "construct": o.Key, "where": o.Where, "found": o.Detail})
	}
	if len(samples) == 0 {
		samples = append(samples, "no discharged obligation")
	}
	var rules []any
	for _, name := range r.order {
		ri := r.rules[name]
		rules = append(rules, map[string]any{"rule": name, "instances": ri.count, "floor": ri.floor, "not_discharged": ri.viol, "text": ri.doc})
	}
	var fns []string
	for f := range r.funcs {
		fns = append(fns, f)
	}
	sort.Strings(fns)
	cov := map[string]any{
		"explanation":        r.explain,
		"obligations":        len(r.obs),
		"discharged":         ndis,
		"known_findings":     nknown,
		"checker_cmd":        fmt.Sprintf("bin/otterlint -property %s -tier %s", r.Property, r.Tier),
		"trusted_base":       []string{"go/types and go/packages (type-checked program)", "golang.org/x/tools/go/ssa v0.29.0 (SSA construction)", "the role/anchor table in checker/roles.go", "the per-rule oracle and exception tables in the checker"},
		"rules":              rules,
		"functions_analysed": len(fns),
		"functions":          fns,
		"samples":            samples,
		"exhaustive":         r.exhaust,
	}
	if len(violSamples) > 0 {
		cov["violation_samples"] = violSamples
	}
	for k, v := range r.extra {
		cov[k] = v
	}
	ev := map[string]any{
		"property_id": r.Property,
		"tier":        r.Tier,
		"seed":        r.Seed,
		"level":       "other",
		"coverage":    cov,
		"assumptions": r.assume,
		"wall_s":      time.Since(r.start).Seconds(),
		"violations":  nviol,
	}
	if writeEvidence {
		b, _ := json.MarshalIndent(ev, "", " ")
		os.MkdirAll(filepath.Join(verifDir, "evidence"), 0o755)
		if err := os.WriteFile(filepath.Join(verifDir, "evidence", r.Property+".json"), b, 0o644); err != nil {
			fmt.Fprintln(os.Stderr, "cannot write evidence:", err)
			return 2
		}
	}
	fmt.Printf("%s %s: %d obligations, %d discharged, %d known finding(s), %d violation(s), %d rules, %.1fs\n",
		r.Property, r.Tier, len(r.obs), ndis, nknown, nviol, len(r.order), time.Since(r.start).Seconds())
	if nviol > 0 {
		return 1
	}
	return 0
}

func oneLine(s string) string {
	s = strings.ReplaceAll(s, "\n", " ")
	if len(s) > 400 {
		s = s[:400] + "…"
	}
	return s
}

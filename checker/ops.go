package main

import (
	"fmt"
	"sort"
	"strings"

	"golang.org/x/tools/go/ssa"
)

// Operation table: the exported operations of the cache, the internal function whose paths are enumerated for each,
// and the model-side transfer function used as oracle (Appendix B of DESIGN.md).
type opSpec struct {
	name   string
	recv   string
	fn     string
	preset map[string]string
	kind   string
	events map[string]string // "recv.fn" -> event kind: callees summarised instead of inlined
}

var opTable = []opSpec{
	{"Set", "cache", "Set", nil, "set", nil},
	{"SetIfAbsent", "cache", "SetIfAbsent", nil, "setIfAbsent", nil},
	{"Compute", "cache", "Compute", nil, "compute", nil},
	{"ComputeIfAbsent", "cache", "ComputeIfAbsent", nil, "computeIfAbsent", nil},
	{"ComputeIfPresent", "cache", "ComputeIfPresent", nil, "computeIfPresent", nil},
	{"Invalidate", "cache", "Invalidate", nil, "invalidate", nil},
	{"GetIfPresent", "cache", "GetIfPresent", nil, "get", nil},
	{"GetEntry", "cache", "GetEntry", nil, "getEntry", nil},
	{"GetEntryQuietly", "cache", "GetEntryQuietly", nil, "getQuiet", nil},
	{"SetExpiresAfter", "cache", "SetExpiresAfter", nil, "setExp", nil},
	{"SetRefreshableAfter", "cache", "SetRefreshableAfter", nil, "setRefr", nil},
}

// internal mechanisms analysed with the same engine
var mechTable = []opSpec{
	{"afterDeleteCall", "cache", "afterDeleteCall", nil, "loadInstall", nil},
	{"evictNode", "cache", "evictNode", nil, "evict", nil},
	{"InvalidateAll", "cache", "InvalidateAll", nil, "deleteNode", map[string]string{"cache.Invalidate": "InvalidateCall"}},
}

type opRun struct {
	spec  opSpec
	fn    *ssa.Function
	outs  []*psOutcome
	ps    *PathSum
	stats string
}

var opCache = map[string]*opRun{}

func opKey(s opSpec) string {
	var ks []string
	for k, v := range s.preset {
		ks = append(ks, k+"="+v)
	}
	sort.Strings(ks)
	for k, v := range s.events {
		ks = append(ks, "ev:"+k+"="+v)
	}
	sort.Strings(ks)
	k := s.recv + "." + s.fn + "?" + strings.Join(ks, "&")
	if s.kind == "moves" {
		k += "#moves" // analysed with the policy's helper loops inlined: a summary of its own
	}
	if s.kind == "admitflow" {
		k += "#admit" // records the admission decisions
	}
	return k
}

func (cx *Ctx) runOp(rule string, spec opSpec) *opRun {
	key := fmt.Sprintf("%p/%s", cx.P, opKey(spec))
	if r, ok := opCache[key]; ok {
		return r
	}
	fn := cx.need(rule, "", spec.recv, spec.fn)
	if fn == nil {
		return nil
	}
	ps := newPathSum(cx)
	if spec.kind == "bulkGet" || spec.kind == "bulkRefresh" {
		// four to five consecutive loops over symbolic collections: with two iterations each the product of paths
		// exceeds the enumeration bound (30000 after 2.4 M steps); these operations keep one iteration per loop in
		// the thorough tier as well
		ps.loopBound = 1
	}
	// stages of the operation that were split off into helpers of their own (functions the pinned tree does not have) are
	// inlined together with their loops, so that the events of a stage are seen wherever it lives; callees that are
	// summarised as events are set below and stay summarised
	stageHelpers := newHelpersOf(fn)
	switch spec.kind {
	case "set", "setIfAbsent", "compute", "computeIfAbsent", "computeIfPresent", "get", "getEntry", "loadInstall":
		// what becomes of the duration a hook returned (C12.hook: applied unless non-positive / unchanged)
		ps.alsoRelevant = append(ps.alsoRelevant, "dur:")
	}
	if spec.kind == "admitflow" {
		ps.alsoRelevant = []string{"res:Admit#"}
	}
	if spec.kind == "setExp" || spec.kind == "setRefr" {
		// the decision to leave a deadline as it is must be a function of that deadline: record such comparisons
		ps.alsoRelevant = []string{"ExpiresAt(", "RefreshableAt(", "param:expiresAfter", "param:refreshableAfter"}
	}
	if spec.kind == "moves" {
		// the transfer loops may live in helpers split off the climbing functions: inline them together with their loops
		for _, f := range cx.P.FuncsOfPkg("") {
			if f.Parent() == nil && f.Signature.Recv() != nil && namedTypeName(f.Signature.Recv().Type()) == "policy" && origin(f) != origin(fn) {
				ps.inlineLoops[origin(f)] = true
			}
		}
	}
	for k, kind := range spec.events {
		parts := strings.Split(k, ".")
		if f := cx.P.Func("", parts[0], parts[1]); f != nil {
			ps.asEvents[origin(f)] = kind
			if kind == "GetNode" && cname(origin(f)) == "getNodeQuietly" {
				ps.eventExtra[origin(f)] = []string{"quiet"}
			}
		} else if kind == "StartCall" {
			// the get-or-create step of the in-flight table may have been split by record kind: resolve it by role
			fs := startCallRoles(cx)
			for _, rf := range fs {
				ps.asEvents[origin(rf.fn)] = kind
				ps.eventExtra[origin(rf.fn)] = []string{rf.kind}
			}
			if len(fs) == 0 {
				cx.R.Undecided(rule, k, "anchor", "-", "summarised callee "+k+" does not resolve")
			}
		} else {
			cx.R.Undecided(rule, k, "anchor", "-", "summarised callee "+k+" does not resolve")
		}
	}
	for _, g := range stageHelpers {
		if _, ev := ps.asEvents[g]; !ev {
			ps.inlineLoops[g] = true
		}
	}
	outs := ps.Run(fn, spec.preset)
	r := &opRun{spec: spec, fn: fn, outs: outs, ps: ps}
	r.stats = fmt.Sprintf("%s: %d paths (%d steps, %d predicate forks, %d silent forks)", spec.name, len(outs), ps.steps, ps.forks, ps.silent)
	opCache[key] = r
	cx.R.AddInt("paths_enumerated", len(outs))
	cx.R.AddInt("pathsum_steps", ps.steps)
	if ps.capped {
		cx.R.Undecided(rule, funcName(fn), "path cap", cx.P.Pos(fn.Pos()), "path enumeration exceeded its bound; the summary is incomplete")
	}
	return r
}

// ---------- views over one outcome ----------

type tableComp struct {
	cur, key, exit string
	enter, exitIdx int
	closed         bool
	next           int // index of the next computation's enter (or len(trace)): the events up to there belong to this one
}

func comps(o *psOutcome, enterKind, exitKind string) []*tableComp {
	var out []*tableComp
	var open []*tableComp
	for i, e := range o.S.trace {
		switch e.Kind {
		case enterKind:
			c := &tableComp{cur: e.Args[0], key: e.Args[1], enter: i, exitIdx: len(o.S.trace)}
			out = append(out, c)
			open = append(open, c)
		case exitKind:
			for j := len(open) - 1; j >= 0; j-- {
				if open[j].cur == e.Args[1] {
					open[j].exit = e.Args[0]
					open[j].exitIdx = i
					open[j].closed = true
					open = append(open[:j], open[j+1:]...)
					break
				}
			}
		}
	}
	return out
}

func tableComps(o *psOutcome) []*tableComp {
	cs := comps(o, "ComputeEnter", "ComputeExit")
	for i, c := range cs {
		c.next = len(o.S.trace)
		if i+1 < len(cs) {
			c.next = cs[i+1].enter
		}
	}
	return cs
}

func isZeroTerm(t string) bool { return t == "nil" || t == "zero" }

func predOf(o *psOutcome, atom string) (bool, bool) {
	v, ok := o.S.preds[atom]
	return v, ok
}

// aliasesOf returns n and the terms proven pointer-identical to it on the path.
func aliasesOf(o *psOutcome, n string) []string {
	out := []string{n}
	for k, b := range o.S.cells {
		if strings.HasPrefix(k, "&alias:") {
			a := k[len("&alias:"):]
			if a == n {
				out = append(out, b)
			}
			if b == n {
				out = append(out, a)
			}
		}
	}
	return out
}

// expiredOf looks for any Expired(n, t) atom (modulo pointer identities established on the path).
func expiredOf(o *psOutcome, n string) (bool, bool) {
	for _, x := range aliasesOf(o, n) {
		for a, v := range o.S.preds {
			if strings.HasPrefix(a, "Expired("+x+",") {
				return v, true
			}
		}
	}
	return false, false
}

// preState classifies the key's abstract pre-state on this path: A absent, L live, X expired-unswept,
// LX = present but the path never looked at expiry, ? = nil-ness never tested.
func preState(o *psOutcome, n string) string {
	isNil, known := predOf(o, "IsNil("+n+")")
	if known && isNil {
		return "A"
	}
	exp, eknown := expiredOf(o, n)
	st := "LX"
	if eknown {
		if exp {
			st = "X"
		} else {
			st = "L"
		}
	} else if we, ok := predOf(o, "flag:withExpiration"); ok && !we {
		st = "L"
	}
	if !known {
		if st == "LX" {
			return "?"
		}
		// an accessor was evaluated on it, so it is non-nil on this path
		return st
	}
	return st
}

func effectOf(c *tableComp) string {
	switch {
	case !c.closed:
		return "open"
	case c.exit == c.cur:
		return "unchanged"
	case isZeroTerm(c.exit):
		return "removed"
	case strings.HasPrefix(c.exit, "fresh"):
		return "install"
	}
	return "other:" + c.exit
}

func eventsOf(o *psOutcome, kind string, from, to int) []psEvent {
	var out []psEvent
	for i, e := range o.S.trace {
		if i >= from && i < to && e.Kind == kind {
			out = append(out, e)
		}
	}
	return out
}

func allEvents(o *psOutcome, kind string) []psEvent { return eventsOf(o, kind, 0, len(o.S.trace)) }

func userCalls(o *psOutcome, name string) []psEvent {
	var out []psEvent
	for _, e := range allEvents(o, "UserCall") {
		if e.Args[0] == name {
			out = append(out, e)
		}
	}
	return out
}

func traceStrings(o *psOutcome) []string {
	out := []string{"path condition: " + predString(o.S.preds)}
	for _, e := range o.S.trace {
		if e.Kind == "FieldStore" && (strings.Contains(e.Args[0], "complit") || strings.Contains(e.Args[0], "varargs")) {
			continue
		}
		out = append(out, "  "+e.String())
	}
	switch {
	case o.Panic:
		out = append(out, "=> PANIC")
	case o.Cut:
		out = append(out, "=> LOOPCUT")
	default:
		out = append(out, "=> RETURN ("+strings.Join(o.Rets, ", ")+")")
	}
	return out
}

// pathSig is a short, position-free description of a path used in obligation keys.
func pathSig(o *psOutcome, atoms ...string) string {
	var ps []string
	for _, a := range atoms {
		for k, v := range o.S.preds {
			if strings.HasPrefix(k, a) {
				if v {
					ps = append(ps, canonAtom(k))
				} else {
					ps = append(ps, "¬"+canonAtom(k))
				}
			}
		}
	}
	sort.Strings(ps)
	return strings.Join(uniq(ps), "∧")
}

// canonAtom strips the activation specific numbering from an atom.
func canonAtom(a string) string {
	var sb strings.Builder
	for i := 0; i < len(a); i++ {
		c := a[i]
		if c >= '0' && c <= '9' {
			// drop digits that follow a letter (symbol numbering) but keep const(…) payloads
			j := i
			for j < len(a) && a[j] >= '0' && a[j] <= '9' {
				j++
			}
			if i > 0 && (a[i-1] >= 'a' && a[i-1] <= 'z' || a[i-1] == '#') && !strings.HasSuffix(a[:i], "const(") {
				i = j - 1
				continue
			}
		}
		sb.WriteByte(c)
	}
	return sb.String()
}

// constants of the program the oracles refer to
type progConsts struct {
	causeInvalidation, causeReplacement, causeOverflow, causeExpiration string
	addReason, deleteReason, updateReason                               string
	cancelOp, writeOp, invalidateOp                                     string
	ok                                                                  bool
}

func (cx *Ctx) consts(rule string) progConsts {
	var pc progConsts
	pc.ok = true
	get := func(n string) string {
		c := cx.P.Const("", n)
		if c == nil {
			cx.R.Undecided(rule, n, "anchor", "-", "constant "+n+" does not resolve")
			pc.ok = false
			return "?"
		}
		return "const(" + c.Val().ExactString() + ")"
	}
	pc.causeInvalidation = get("CauseInvalidation")
	pc.causeReplacement = get("CauseReplacement")
	pc.causeOverflow = get("CauseOverflow")
	pc.causeExpiration = get("CauseExpiration")
	pc.addReason = get("addReason")
	pc.deleteReason = get("deleteReason")
	pc.updateReason = get("updateReason")
	pc.cancelOp = get("CancelOp")
	pc.writeOp = get("WriteOp")
	pc.invalidateOp = get("InvalidateOp")
	return pc
}

// startCallRoles: the functions that play startCall's role - methods of group that return (*call, bool) and create the
// record with newCall inside a computation on the in-flight table. kind is the record kind they create when it is a
// constant ("true" = refresh, "false" = load), "" when it is a parameter (the original two-argument form).
type startRole struct {
	fn   *ssa.Function
	kind string
}

func startCallRoles(cx *Ctx) []startRole {
	if f := cx.P.Func("", "group", "startCall"); f != nil {
		return []startRole{{f, ""}}
	}
	newCall := cx.P.Func("", "", "newCall")
	callsF := cx.P.Field("", "group", "calls")
	compute := cx.P.Func(hmPkg, "Map", "Compute")
	if newCall == nil || callsF == nil || compute == nil {
		return nil
	}
	var out []startRole
	for _, f := range cx.P.FuncsOfPkg("") {
		if f.Parent() != nil || f.Signature.Recv() == nil || namedTypeName(f.Signature.Recv().Type()) != "group" || f.Signature.Results().Len() != 2 {
			continue
		}
		computes, kind, creates := false, "", false
		withClosures(f, func(g *ssa.Function) {
			allInstrs(g, func(in ssa.Instruction) {
				if isCallTo(in, compute) && sameField(recvField(in), callsF) {
					computes = true
				}
				if isCallTo(in, newCall) {
					creates = true
					a := callArgs(in)
					if b, ok := constBool(a[len(a)-1]); ok {
						kind = fmt.Sprint(b)
					}
				}
			})
		})
		if computes && creates {
			out = append(out, startRole{f, kind})
		}
	}
	return out
}

// newHelpersOf: the unexported functions of fn's package that fn (or one of its closures) calls directly and that the
// pinned tree does not have.
func newHelpersOf(fn *ssa.Function) []*ssa.Function {
	var out []*ssa.Function
	seen := map[*ssa.Function]bool{}
	loadBaseline()
	var visit func(f *ssa.Function)
	visit = func(f *ssa.Function) {
		allInstrs(f, func(in ssa.Instruction) {
			g := calleeOf(in)
			if g == nil || g.Pkg == nil || g.Pkg != fn.Pkg || g.Parent() != nil || g.Object() == nil || g.Object().Exported() || len(origin(g).Blocks) == 0 || seen[origin(g)] {
				return
			}
			seen[origin(g)] = true
			pkg, recv, _ := funcKey(g)
			if _, known := baselineFuncs[pkg+"|"+recv+"|"+cname(g)]; !known {
				out = append(out, origin(g))
			}
		})
		for _, a := range f.AnonFuncs {
			visit(a)
		}
	}
	visit(fn)
	return out
}

NOTES = ("Static analysis only. Every check decides named structural necessary conditions of its property on all paths of /repo's "
         "current source (level 'other'); what is not decided is stated per check and in DESIGN.md. Known genuine defects: known_findings.json.")
TB = "Trusted: go/types, go/ssa (x/tools v0.29.0), the anchor/role table and the per-rule oracle tables of the checker. "
NOT_APPLICABLE = {}
CLAIMED["C14"] = dict(
    technique="static analysis: CFG must-follow / dominance rules over go/ssa on the drain-status and eviction-lock protocol",
    text="Decides, on every control-flow path, the protocol obligations the no-lost-wake-up argument rests on: push=>schedule (else caller-runs clean-up), "
         "unlock=>reschedule, drain-status machine shape (begin/end of maintenance, drain cap, per-case obligations, exhaustive switches), lock pairing with the token hand-off, "
         "schedule=>dispatch=>maintenance. A structural necessary condition: breaking any of them strands maintenance on some schedule. It does not decide absence of lost wake-ups over all interleavings.",
    note=TB + "Assumes the default executor eventually runs every submitted function and sync/atomic semantics.",
    ref="DESIGN.md §4 C14")
CLAIMED["C16"] = dict(
    technique="static analysis: dominance/edge-guard/order rules on the MPSC queue's SSA, must-follow rule from every pop to its replay, atomic-access census, eviction-lock context analysis",
    text="Decides on every path of internal/deque/queue the disciplines exactly-once delivery rests on: reserve (index CAS) before publish and slot derived from the pre-CAS reads; result protocol of the slow path ('full' only when no capacity is left, 'resize' only after the odd-index CAS); the five-step publication order of resize; consumer returns nil only for an empty queue, awaits unpublished slots, clears before advancing, follows the jump marker; all slot accesses atomic; single consumer (TryPop only under the eviction lock); the cache never drops a task it could not push. Does not decide exactly-once/FIFO delivery over interleavings.",
    note=TB + "Assumes Go-memory-model sequential consistency of sync/atomic.",
    ref="DESIGN.md §4 C16")
CLAIMED["C17"] = dict(
    technique="static analysis: dominance/edge-guard/order rules on the ring and stripe table SSA, table-currency rule under the busy flag (inter-procedural through helper parameters), constant/array-length agreement, def-use slice, eviction-lock context analysis",
    text="Decides on every path of internal/lossy: reserve (tail CAS) before publish into the reserved slot, capacity test against the real array length, consumer hands over only non-nil loaded slots, clears before delivering/publishing, stops at the first unpublished slot, advances once per element; stripe table/slots written only in a busy region that is always left; expansion copies every stripe before publishing; DrainTo only under the eviction lock; the Add status flows only into the drain-scheduling decision (dropping reads cannot change results). Does not decide loss/duplication freedom over interleavings.",
    note=TB + "Assumes sequential consistency of sync/atomic.",
    ref="DESIGN.md §4 C17")
CLAIMED["C15"] = dict(
    technique="static analysis: path counting, must-held lock dataflow, edge-dominance guards and order rules over the hash table's SSA; atomic-access census",
    text="Decides on every path of internal/hashmap the disciplines a linearizable table rests on: update function exactly once per Compute and never before a retry; callback and all slot/meta/link stores under the root-bucket lock with no unlock in between; resize-in-progress then table-identity re-check before any slot access; all locks released; resize migrates the table reloaded after winning the flag, publishes before clearing the flag, always clears it; lock-free Get uses atomic loads and double-checks the key; meta-before-pointer order; size +1/-1/0 exactly once; Range calls out only unlocked; iterators yield only alive, unexpired nodes. Does not decide linearizability or iteration consistency over schedules.",
    note=TB + "Assumes sync.Mutex/sync/atomic semantics and immutable node keys.",
    ref="DESIGN.md §4 C15")
CLAIMED["C18"] = dict(
    technique="static analysis: sibling agreement by expression normal form (increment vs frequency counter addressing for i=0..3), edge-dominance guards, constant/operand binding checks",
    text="Decides the structural facts behind 'never under-counts' and 'admission follows estimates': increment and frequency address identical (word, nibble) counters as normalised expressions; block/blockMask/table-length agreement; 4-bit saturating add by exactly one in the right nibble; 4-bit masked minimum; whole-table halving with the 0x7777.. mask; zero/no-op before initialisation; admit's decision table (strictly greater, else 1/128 draw only for estimate >= threshold) and the candidate/victim binding and eviction choice at its call site. Does not decide the arithmetic theorem over all hashes.",
    note=TB + "Assumes Go uint64 arithmetic and purity of hash/rehash.",
    ref="DESIGN.md §4 C18")
CLAIMED["C13"] = dict(
    technique="static analysis: edge-dominance guards on unsigned deadline arithmetic, per-iteration path counting in the sweep loop, value-flow (untruncated tick delta reaches the slot loop's control), shape analysis of the bucket rings on canonical configurations, call-order dominance in maintenance, guarded-call tables for task replay",
    text="Decides structural necessary conditions of timely sweeping: no wrap-around in deadline - wheelTime (ordering test or clamp, and the clamped value feeds slot selection); every unlinked timer is expired or re-added exactly once; expire only on deadline < wheel time with that time passed on; wheel clock advanced before sweeping and every level with a changed tick swept; maintenance replays writes (and the caller's task) before sweeping with a fresh clock sample; task replay schedules alive nodes / unschedules old ones. Does not decide the bucket/span/shift arithmetic, cascading or the 1.08 s bound.",
    note=TB + "Assumes a monotonic clock between sweeps.",
    ref="DESIGN.md §4 C13")
PS = "path-sensitive effect summaries (PATHSUM: symbolic enumeration of every SSA path of the operation with callee/closure inlining, cells, a three-valued predicate store and role-recognised events) compared with an oracle table"
CLAIMED["C01"] = dict(
    technique="static analysis: " + PS + " (one-step refinement against the map-with-deadlines model)",
    text="Decides a one-step refinement: for every operation (Set, SetIfAbsent, GetIfPresent, GetEntry, GetEntryQuietly, Compute, ComputeIfAbsent, ComputeIfPresent, Invalidate, SetExpiresAfter, SetRefreshableAfter), every abstract pre-state of the key (absent/live/expired-unswept), every callback outcome and configuration flag valuation, every enumerated path of the real code returns the model's result and leaves the table in the model's post-state. This is what the tests only sample; it is a necessary condition of sequential conformance. Does not decide whole sequences with interleaved eviction, BulkGet/InvalidateAll beyond one iteration, or iteration order.",
    note=TB + "Assumes hashmap.Compute runs its callback once atomically (C15), HasExpired stable within one path, immutable configuration flags.",
    ref="DESIGN.md §4 C01, Appendix B1")
CLAIMED["C03"] = dict(
    technique="static analysis: " + PS + " (expired rows of the refinement, deadline-move guard)",
    text="Decides that on every path an expired-but-unswept entry is treated as absent by Set/SetIfAbsent/Invalidate/Compute*/reads (returned terms and callback arguments), and that an existing entry's expiration deadline is moved only on paths where it is known unexpired. Necessary conditions of 'never observable after its deadline'; clock movement during an operation is not decided.",
    note=TB + "Assumes HasExpired(x, now) is stable within one path.",
    ref="DESIGN.md §4 C03")
CLAIMED["C06"] = dict(
    technique="static analysis: " + PS + " (exactly-once atomic and deferred report per removed node, cause agreement), guarded-call table of runTask",
    text="Decides per path: a node that leaves the table is reported exactly once atomically (inside the computation, its own key/value, truthful cause with the Expiration override) and exactly once deferred (one add/update/delete task enqueued or run once, or one direct notification without maintenance; eviction callback iff its removal happened); nothing is reported for unchanged tables; task cause equals atomic cause; runTask notifies once per update/delete. Does not decide conservation over histories.",
    note=TB + "Assumes each enqueued task is replayed exactly once (C16) and Compute atomicity (C15).",
    ref="DESIGN.md §4 C06, Appendix B2")
CLAIMED["C09"] = dict(
    technique="static analysis: " + PS + " (in-flight record cleared inside every mutating computation; installer decision table)",
    text="Decides that every write/compute/invalidate/eviction clears the key's in-flight record inside the same bucket-locked computation that changes the mapping, and that the load installer installs/removes only on paths where its record was still registered (tested inside the computation), keeps on error or when superseded, and releases waiters once after the computation. The schedule quantifier is reduced to C15's atomicity.",
    note=TB + "Assumes Compute atomicity per key (C15).",
    ref="DESIGN.md §4 C09")
CLAIMED["C20"] = dict(
    technique="static analysis: " + PS + " (lookup-count table, load/eviction record guards), def-use census of loader dispatch",
    text="Decides per path: the documented number of hit/miss records per operation with hit <=> live entry; exactly one load success/failure per dispatch (also on the re-panic path) with the right classification; loaders dispatched only through wrapLoad; eviction recorded once with the victim's weight iff the removal happened. Does not decide the striped adder's exactness under contention.",
    note=TB,
    ref="DESIGN.md §4 C20, Appendix B3")
CLAIMED["C12"] = dict(
    technique="static analysis: " + PS + " (hook selection, saturating deadline terms, inheritance), writer census, sibling agreement over the 12 node variants, guard whitelist on deadline stores",
    text="Decides per path: every stored deadline is satadd(clock sample of the operation, duration returned by the hook/API argument of that path); the hook is chosen by the pre-state (create for absent/expired, update/reload with the live old value, failure hook on failed reloads, read hook once per counted read) and an expired predecessor's value is never passed on; a replacing node inherits the predecessor's deadlines first; only the four known sites write deadlines and only the documented no-op tests may suppress a store; HasExpired (<=) and IsFresh (>) have the same boundary in all 12 variants; SaturatedAdd clamps. Does not decide numeric equality on concrete runs.",
    note=TB + "Assumes calculators are pure w.r.t. the cache.",
    ref="DESIGN.md §4 C12, Appendix B5")
CLAIMED["C08"] = dict(
    technique="static analysis: " + PS + " with summarised callees (started => dispatched, wait-before-read, get-or-create, finish), CFG dominance of the deferred recovering finish handler",
    text="Decides per path: records are created only inside the in-flight table computation when none exists, and removed only by identity; doCall/doBulkCall register a recovering deferred finish before invoking the loader and finish every record exactly once (loader panic included); the finish callback releases waiters once after the table computation; in Get/Refresh/BulkGet/bulk refresh a record obtained with shouldLoad is dispatched exactly once before any wait - exceptional exits included - and joined records are only waited on. One genuine defect (bulk refresh after a re-raised loader panic) is a known finding. Does not decide temporal non-overlap or termination under all interleavings.",
    note=TB + "Assumes sync.WaitGroup semantics and that the executor runs submitted closures.",
    ref="DESIGN.md §4 C08, §5 #12")
CLAIMED["C10"] = dict(
    technique="static analysis: " + PS + " (installer decision table, record invariants of the sibling loaders, complete and checked distribution of the bulk result map, guarded result assembly), who-may-finish census of the dispatch callbacks",
    text="Decides per path: installer decision table over (own record, not-found, error); not-found mark always accompanied by the not-found error and reset when another error overwrites it, volunteered keys registered before the error epilogue; results read from a record only after wait and under err == nil, hits inserted under the looked-up key, misses return (record.value, record.err); BulkGet dispatches at most once with only its own records and skips duplicates before the lookup. Does not decide exact result maps for arbitrary loader shapes beyond these guards.",
    note=TB + "Loaders are opaque user functions.",
    ref="DESIGN.md §4 C10, Appendix B4")
CLAIMED["C11"] = dict(
    technique="static analysis: " + PS + " (old value served, executor-only reload, not-fresh trigger, channel protocol), guard rules on reload argument selection",
    text="Decides per path: hits return the cached value and never load inline; reload only on the not-fresh edge and only inside the cache's executor closure; Reload receives the old value, Load is used for absent keys; no channel / nothing scheduled without refresh, capacity-1 channel with exactly one result per manual (bulk) refresh on every non-panicking path, nothing sent for automatic refreshes; failed reload keeps entry and expiry, own not-found reload removes, own successful reload installs. Does not decide timing around the deadline or asynchronous executors.",
    note=TB + "Known finding: bulk refresh after a re-raised loader panic (shared with C08).",
    ref="DESIGN.md §4 C11")
CLAIMED["C04"] = dict(
    technique="static analysis: " + PS + " over the policy handlers (eviction loops with callback havoc, add/update/makeDead accounting), writer census, lock-section order rule",
    text="Decides per path: eviction loops never hand a zero-weight entry to the callback and only evict in iterations guarded by weightedSize > maximum (re-read after each callback); oversized entries are evicted by add/update; add/update count a weight exactly once on every path (dead nodes included), makeDead releases exactly once under the not-dead guard, totals and the maximum are written only by their handlers, nodes die only through makeDead; SetMaximum stores and enforces under one lock section and maintenance replays writes first; every table change yields its replay task and the update handler keeps the new node reachable. Does not decide the numeric bound over histories/schedules or absence of uint64 underflow.",
    note=TB + "The eviction callback's effect on the policy is modelled as havoc of the policy's fields.",
    ref="DESIGN.md §4 C04")
CLAIMED["C05"] = dict(
    technique="static analysis: " + PS + " (task per table change, handler tables, transplant, queue transfers with symbolic counter deltas, deque link hygiene), shape analysis of the intrusive deque (each path summary of every mutator applied to the canonical list shapes must yield the specified well-formed list), eviction-lock context analysis for writes and reads with call-site/parameter correlation, writer census",
    text="Decides per path: exactly one matching add/update/delete task per table change (none when unchanged), retire once; runTask applies each kind completely to both policies; add links only alive nodes; update transplants only from a contained predecessor, else window entry; the eviction callback unlinks, unschedules and kills on all paths and reports iff it removed; the deque clears links of removed/replaced nodes and keeps len in step; all policy/deque/wheel/sketch/node-link writes and both buffer consumers run with the eviction lock held (token hand-off and constructor exemptions named); no task dropped on enqueue. Does not decide counter = sum(weights) or set(Coldest) = set(All) as run-time facts.",
    note=TB + "Assumes tasks are replayed exactly once in producer order (C16).",
    ref="DESIGN.md §4 C05")
CLAIMED["C07"] = dict(
    technique="static analysis: " + PS + " over eviction loops and the eviction callback, who-may-call census of the callback and the Overflow constant, guarded sweep predicate",
    text="Decides per path: size evictions only in iterations guarded by weightedSize > maximum and never of zero-weight entries; window transfers only above the window maximum; the eviction callback reports Expiration exactly when the victim is expired at its time, Overflow otherwise; the callback is handed only to the eviction policy (under withEviction) and the timer wheel (under withExpiration) and CauseOverflow originates only there; the wheel expires only on deadline < wheel time. Does not decide 'total weight exceeded the maximum at that moment' numerically.",
    note=TB,
    ref="DESIGN.md §4 C07")
CLAIMED["C02"] = dict(
    technique="static analysis: composition of the table's CFG/lock rules, who-may-call censuses, " + PS + " (victim identity, callback exactly once), reachability-based lock-order rule",
    text="Decides code-shape necessary conditions of linearizability: update function exactly once, under the bucket lock, atomic with its store, after the resize re-checks; the cache mutates its table only via that computation (Clear unused, creators/retirers only under it); automatic removal only by pointer identity; node key/value/weight immutable, mutable node fields atomic; user remapping function exactly once per Compute* call, mapping unchanged on panic; in-flight record cleared inside every mutating computation and waiters released only after the installation; acyclic lock order (nothing reachable from a table computation takes the eviction lock, waits or dispatches a loader; in-flight computations are leaves; no wait/dispatch while the eviction lock may be held). Linearizability itself (histories x schedules) is NOT decided - that needs a history/model checker, a different family.",
    note=TB + "Assumes sync.Mutex / sync/atomic semantics.",
    ref="DESIGN.md §4 C02")
CLAIMED["C19"] = dict(
    technique="static analysis: guard/dominance rules on the persistence loops, field-fill census of the snapshot, iterator filter guards, lazily-evaluated-iterator rule (list state read only under the lock or inside the iterator closures), sibling boundary agreement",
    text="Decides structural necessary conditions of save/load fidelity: the snapshot carries key, value, weight and both deadlines of the node; the saved entries come from the eviction-order iterator, which runs maintenance under the lock on every path and yields only alive, unexpired entries; the loader skips deadline <= now (HasExpired's boundary in all variants), re-inserts with Set, then restores max(1, deadline - now) with the same clock sample under the right flag/sentinel guards; both loops stop at the maximum and account weights. Round-trip equality on concrete runs and gob itself are NOT decided.",
    note=TB + "Assumes Set/SetExpiresAfter/SetRefreshableAfter behave as C01/C12 decide.",
    ref="DESIGN.md §4 C19")

# ---- round 5 additions (appended to the level text / technique of the properties whose checks grew) ----
def _add(pid, text, tech=None):
    CLAIMED[pid]["text"] = CLAIMED[pid]["text"].rstrip() + " Round 5: " + text
    if tech:
        CLAIMED[pid]["technique"] = CLAIMED[pid]["technique"].rstrip() + "; " + tech

_CFG = "construction refinement (C01.config): on every enumerated path of New, under scenarios over the options, flags, handlers, recorder, executor (and the default-executor flag), maximum, clock, timer wheel, janitor and buffers are wired as configured"
_CFGT = "path summaries of the constructor under option scenarios (PATHSUM with decided predicates)"
_add("C01", _CFG + "; a 'handler configured' test guards only the handler's invocation (C06.handlernil).", _CFGT)
_add("C03", "what an operation returns never depends on whether a deletion listener is attached (C06.handlernil).")
_add("C04", _CFG + ".", _CFGT)
_add("C05", _CFG + "; every mutator of the timer wheel keeps scheduled <=> linked (C13.shape listed here).", _CFGT)
_add("C06", _CFG + "; a 'handler configured' test guards only the handler's invocation (C06.handlernil).", _CFGT)
_add("C12", _CFG + "; the built-in calculators implement their documented policy table on whatever type their constructors return, Entry.ExpiresAfter / RefreshableAfter are deadline - snapshot (C12.calc); the clock is the configured one, passed through unchanged, initialised under withTime (C12.clock); no deadline store is reachable from quiet / removing / maintenance operations (C12.sites as reachability census).", _CFGT + "; policy-table check of the calculators by normalised return terms")
_add("C11", "the built-in refresh calculators implement their documented policy table (C12.calc).")
_add("C14", _CFG + " - in particular hasDefaultExecutor is true exactly when the default executor is stored (a false flag strands maintenance).", _CFGT)
_add("C20", _CFG + "; the bundled recorder adds every reported figure exactly once to its own 64-bit counter and nothing else writes a counter, Snapshot / Plus / Minus pair equal names (C20.counter / C20.stats); the striped adder returns only after exactly one successful CompareAndSwap(count, count+delta) on the stripe it read, Value sums every stripe (C20.adder); the split form of the timing wrapper is decided too.", _CFGT + "; exactly-once path counting and writer census on the recorder and adder")
_add("C08", "the in-flight table is published at most once per group (C08.tableonce); nothing reachable from an in-flight computation - function arguments resolved per call site - touches the main table or blocks (C02.lockorder listed here).", "context-sensitive reachability over resolved callees and function-typed parameters")
_add("C10", "the timing wrapper hands the dispatch's error through unchanged (C10.wrapload).")
_add("C02", "the lock-free lookup examines every candidate slot (C15.scan) against the writers' meta-before-pointer order (C15.metaorder); function-typed parameters are resolved per call site in the lock-order reachability.")
_add("C13", "the sweep precedes size eviction in maintenance (C13.order).")
_add("C15", "meta-word constants and SWAR helpers agree (C15.swar); bucket index, mask and hasher belong to one table and tag and bucket come from one hash (C15.hashidx); a chain is snapshotted under one hold of its root lock (C15.range).")
_add("C16", "mask and buffer are read after the producer index the CAS expects (C16.reserve).")
_add("C18", "policy.access / policy.add record the key in the sketch exactly once on every path and every drained read reaches access (C18.record).")

# ---- rounds 6 and 7 ----
def _add67(pid, text, tech=None):
    CLAIMED[pid]["text"] = CLAIMED[pid]["text"].rstrip() + " Rounds 6-7: " + text
    if tech:
        CLAIMED[pid]["technique"] = CLAIMED[pid]["technique"].rstrip() + "; " + tech

_IT = "ITERSIM (abstract interpretation of the iterator's type-checked syntax tree over symbolic sources of bounded length, every outcome of the liveness / expiry tests, flags, comparators and consumer stop points enumerated by choice replay)"
_ITX = "every iterator of the cache API (All, Keys, Values, Hottest, Coldest) yields, for each element of each source it draws from - the table's Range or all three policy queues - that is alive and unexpired, exactly one value, the projection its signature promises; nothing for a failing element, nothing untested, nothing after the consumer stopped; every complete run walks the table or every queue (C01.iterate)"
_add67("C01", _ITX + "; a panicking compute callback leaves the mapping unchanged (C01.step, also listed under C07 / C15); the reload record carries the old value of its own key (C11.reloadarg listed here).", _IT)
_add67("C02", "singleflight.delete has no counter / flag shortcut (C09.cancel listed here); the key hash respects == (C18.hash listed here).")
_add67("C03", _ITX + "; the main table's Range is only ever called with a filtering callback.", _IT)
_add67("C04", "the eviction loop is left only within the bound or with both cursors exhausted (C04.exit); EstimatedSize / WeightedSize / GetMaximum read the bookkeeping they are named after (C05.views).")
_add67("C05", _ITX + "; the sequence combinators of package xiter hand on every element of every input exactly once (C05.combine) and the list iterators yield exactly the members of the list (C05.walk); a task that bypasses the write buffer is run only after the buffer was drained (C16.direct); the sweep relinks nothing by hand (C13.nodrop census); the task handed out carries exactly its four arguments (C05.gettask); policy.delete / updateNode unlink from the named queue and release the weight once (C05.polunlink).", _IT + "; interprocedural dominance of the draining step with constant-argument / flag correlation")
_add67("C06", "a resize copies a chain only under its root lock, so it waits for a computation in flight (C15.copylock listed here); who uses the cause Overflow records the eviction (C20.autocause); direct tasks after the drain (C16.direct).")
_add67("C07", "the wheel is advanced to a reading of the cache's own clock on every path and through every parameter (C13.sweeptime); the value returned by evictFromWindow is the first node really moved (C07.window); panic => mapping unchanged (C01.step).")
_add67("C08", "the loader is never handed to or captured by a function started with go (C08.sync); wait blocks on every path and cancel releases exactly once (C08.wait).")
_add67("C09", "a loaded value is an argument of a table write only inside the installer afterDeleteCall and its private helpers (C09.install); volunteered keys are told apart by membership in the bulk map (C10.distribute listed here).")
_add67("C10", "the function adapters of the loader interfaces forward (ctx, key) (C10.adapter).")
_add67("C11", "outside the reload handed to the executor, Refresh / BulkRefresh reach no store of an expiration deadline and no ExpireAfterRead (C11.quiet).", "reachability census that skips the closures / method values handed to the executor")
_add67("C12", "the expiry test of an entry and the base of its new deadline are the same clock sample (C12.sat); C11.quiet listed here.")
_add67("C13", "wheel time advanced on every returning path (C13.advance); findBucket files a timer under the first level whose next span exceeds the remaining duration, in the slot of its tick (C13.findbucket); sweep time is the cache clock's (C13.sweeptime); deadline arithmetic saturates (C12.sat / C12.hook listed here); direct tasks after the drain (C16.direct).")
_add67("C14", "the drain-cap marker is stored only inside maintenance (C14.transitions); the delete task reports exactly once whatever the node's state (C05.runTask listed here).")
_add67("C15", _ITX + "; only addSize / addSizePlain write a size stripe and a resize credits the new table with what each copier reports (C15.sizecopy); a resize writes nothing into the chain it copies from (C15.srcreadonly).", _IT)
_add67("C16", "chunk geometry is self-consistent (C16.geometry); power-of-two helpers (C16.math); every value TryPop can hand out was itself compared with the jump marker, also when the slot is re-read after waiting for its producer (C16.pop); a task that bypasses the buffer runs only after the buffer was drained (C16.direct).")
_add67("C17", "the ring's counters only grow: tail by CAS(t, t+1), head by a store computed from its own load, slots emptied only by the function that advances head (C17.monotone); DrainTo drains every allocated ring 0..len-1 and returns early only without a table (C17.drainall); the doubled stripe table is the tested one (C17.bound); maintenance drains on every path past a negative skipReadBuffer with onAccess as consumer (C17.delivered); a fresh ring holds exactly its first element (C17.init).")
_add67("C18", "ensureCapacity precedes the recording of the arrival on every path of policy.add (C18.record); the admission contest gets the first node that really left the window (C18.handoff); every counter is updated on every recording (C18.index).")
_add67("C19", _ITX + " - SaveCacheTo draws from Hottest; C05.combine / C05.walk listed here; a file opened with os.OpenFile for saving carries O_TRUNC or O_EXCL (C19.file).", _IT)
_add67("C20", "every type assertion on the configured recorder that feeds the withStats decision asserts the concrete *stats.NoopRecorder (C20.recorder); every function that uses the cause Overflow reaches RecordEviction (C20.autocause); loader never started with go (C08.sync listed here).")

# ---- late round 7 / round 8 ----
def _add8(pid, text):
    CLAIMED[pid]["text"] = CLAIMED[pid]["text"].rstrip() + " Round 8: " + text

_add8("C04", "no 64-bit field of the policy is narrowed to a 32-bit or smaller integer (C04.width).")
_add8("C07", "limits and totals of the size bound stay 64 bits wide (C04.width).")
_add8("C12", "the sweep expires a timer only on deadline < wheel time, re-read at the sweep (C13.nodrop listed here).")
_add8("C13", "CleanUp / performCleanUp run maintenance on every returning path and the janitor reaches it (C13.cleanup).")
_add8("C14", "CleanUp runs maintenance unconditionally (C13.cleanup); the drain bound of a pass is a power of two, so it covers the queue's rounded capacity (C16.bound); the eviction callback reports once (C06.async listed here).")
_add8("C16", "a task is recycled only by its replay (C16.recycle); the drain bound / queue maximum is a power of two by construction (C16.bound).")
_add8("C18", "the hasher is re-seeded only together with a freshly allocated table (C18.seed).")
_add8("C19", "one maintenance pass before the snapshot drains the whole write buffer: its bound is a power of two like the queue's rounded capacity (C16.bound).")

NOTES = ("Static analysis only. Every check decides named structural necessary conditions of its property on all paths of /repo's "
         "current source (level 'other'); what is not decided is stated per check and in DESIGN.md. Known genuine defects: known_findings.json.")
TB = "Trusted: go/types, go/ssa (x/tools v0.29.0), the anchor/role table and the per-rule oracle tables of the checker. "
NOT_APPLICABLE = {}
CLAIMED["C14"] = dict(
    technique="static analysis: CFG must-follow / dominance rules over go/ssa on the drain-status and eviction-lock protocol",
    text="Decides, on every control-flow path, the protocol obligations the no-lost-wake-up argument rests on: push=>schedule (else caller-runs clean-up), "
         "unlock=>reschedule, drain-status machine shape (begin/end of maintenance, drain cap, per-case obligations, exhaustive switches), lock pairing with the token hand-off, "
         "schedule=>dispatch=>maintenance. A structural necessary condition: breaking any of them strands maintenance on some schedule. It does not decide absence of lost wake-ups over all interleavings.",
    note=TB + "Assumes the default executor eventually runs every submitted function and sync/atomic semantics.",
    ref="DESIGN.md §4 C14")

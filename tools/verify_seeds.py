#!/usr/bin/env python3
"""Confirms seeded changes: demo passes on clean HEAD, fails with the patch, suite passes with the patch.
usage: verify_seeds.py <outdir-of-agents> <resultdir> [ids...]"""
import glob, json, os, re, subprocess, sys, shutil
src, res = sys.argv[1], sys.argv[2]
only = sys.argv[3:]
ENV = dict(os.environ, GOFLAGS="-mod=mod", GOPROXY="off")
WT = os.environ.get("VWT", "/tmp/seed/vwt")
def sh(cmd, cwd=WT, timeout=400):
    try:
        p = subprocess.run(cmd, cwd=cwd, env=ENV, shell=True, capture_output=True, text=True, timeout=timeout)
        return p.returncode, p.stdout + p.stderr
    except subprocess.TimeoutExpired:
        return 124, "TIMEOUT"
subprocess.run("git -C /repo worktree remove --force %s 2>/dev/null; git -C /repo worktree add -q %s HEAD" % (WT, WT), shell=True)
pkgdir = {"otter": ".", "hashmap": "internal/hashmap", "queue": "internal/deque/queue", "lossy": "internal/lossy", "expiration": "internal/expiration", "deque": "internal/deque", "otter_test": "."}
for d in sorted(glob.glob(os.path.join(src, "*"))):
    sid = os.path.basename(d)
    for n in (1, 2):
        name = "%s-%d" % (sid, n)
        if only and name not in only and sid not in only:
            continue
        patch, demo = os.path.join(d, "patch%d.diff" % n), os.path.join(d, "demo%d_test.go" % n)
        if not (os.path.exists(patch) and os.path.exists(demo)):
            continue
        out = {"seed": name}
        m = re.search(r"^package\s+(\w+)", open(demo).read(), re.M)
        pk = pkgdir.get(m.group(1) if m else "otter", ".")
        sh("git checkout -q -- . && git clean -fdq")
        dst = os.path.join(WT, pk, "verif_demo_%d_test.go" % n)
        shutil.copy(demo, dst)
        rc, o = sh("timeout 200 go test -vet=off -count=1 -timeout 180s -run 'TestVerifDemo' ./%s" % pk)
        out["clean_demo_pass"] = rc == 0
        rc, o2 = sh("git apply %s" % patch)
        out["patch_applies"] = rc == 0
        if rc == 0:
            rc, o = sh("timeout 200 go test -vet=off -count=1 -timeout 180s -run 'TestVerifDemo' ./%s" % pk)
            out["patched_demo_fails"] = rc != 0
            out["patched_demo_tail"] = o[-600:]
            os.remove(dst)
            ok = False
            fails = []
            for attempt in range(3):
                rc, o = sh("timeout 300 go test -vet=off -count=1 -timeout 200s ./...", timeout=400)
                if rc == 0:
                    ok = True
                    break
                fails.append(re.findall(r"^--- FAIL: (\S+)|^(panic: test timed out)", o, re.M)[:3])
            out["suite_passes_with_patch"] = ok
            out["suite_flaky_failures"] = fails
        json.dump(out, open(os.path.join(res, name + ".json"), "w"), indent=1)
        print(json.dumps({k: v for k, v in out.items() if k != "patched_demo_tail"}), flush=True)
sh("git checkout -q -- . && git clean -fdq")
subprocess.run("git -C /repo worktree remove --force %s" % WT, shell=True)

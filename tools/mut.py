#!/usr/bin/env python3
"""Mutant catalogue for checker self-validation.

  mut.py new  <name> <expect-rule[,rule]> <file> <<< 'OLD\n====\nNEW'   create mutants/<name>.diff (+ index entry); expect 'neutral' for silent variants
  mut.py run  [name ...]                                                apply each mutant to a scratch copy of /repo and run the expected properties
  mut.py list

A mutant is a unified diff against /repo's working tree. Scratch copies live under /tmp/otterlint-mut-* and are removed at once.
"""
import json, os, shutil, subprocess, sys, tempfile

HERE = os.path.dirname(os.path.dirname(os.path.abspath(__file__)))
MUT = os.path.join(HERE, "mutants")
IDX = os.path.join(MUT, "index.json")
REPO = os.environ.get("VERIF_REPO", "/repo")
ENV = dict(os.environ, GOFLAGS="-mod=mod", GOPROXY="off", GOWORK="off")


def load():
    if os.path.exists(IDX):
        return json.load(open(IDX))
    return {}


def save(idx):
    os.makedirs(MUT, exist_ok=True)
    json.dump(idx, open(IDX, "w"), indent=1, sort_keys=True)


def scratch():
    d = tempfile.mkdtemp(prefix="otterlint-mut-")
    subprocess.check_call(["rsync", "-a", "--exclude", ".git", "--exclude", "docs", "--exclude", "benchmarks", REPO + "/", d + "/"])
    return d


def cmd_new(name, expect, file):
    spec = sys.stdin.read()
    old, new = spec.split("\n====\n")
    old = old.strip("\n")
    new = new.rstrip("\n")
    if new.startswith("\n"):
        new = new[1:]
    d = scratch()
    try:
        p = os.path.join(d, file)
        s = open(p).read()
        if s.count(old) != 1:
            print("ERROR: old text occurs %d times in %s" % (s.count(old), file))
            return 1
        open(p, "w").write(s.replace(old, new))
        r = subprocess.run(["go", "build", "./..."], cwd=d, env=ENV, capture_output=True, text=True)
        if r.returncode != 0:
            print("ERROR: mutant does not build:\n" + r.stderr[:2000])
            return 1
        diff = subprocess.run(["diff", "-u", "--label", "a/" + file, "--label", "b/" + file, os.path.join(REPO, file), p], capture_output=True, text=True).stdout
        os.makedirs(MUT, exist_ok=True)
        open(os.path.join(MUT, name + ".diff"), "w").write(diff)
        idx = load()
        rules = [] if expect == "neutral" else [r.split("@")[0] for r in expect.split(",")]
        props = sorted({r.split("@")[1] for r in expect.split(",") if "@" in r})
        idx[name] = {"file": file, "expect": rules, "neutral": expect == "neutral"}
        if props:
            idx[name]["props"] = props
        save(idx)
        print("created", name)
    finally:
        shutil.rmtree(d, ignore_errors=True)
    return 0


def props_of(entry, allprops):
    if entry.get("neutral"):
        return entry.get("props") or allprops
    if entry.get("props"):
        return entry["props"]
    return sorted({r.split(".")[0] for r in entry["expect"]})


def cmd_run(names):
    idx = load()
    if not names:
        names = sorted(idx)
    allprops = subprocess.run([os.path.join(HERE, "bin", "otterlint"), "-list"], capture_output=True, text=True).stdout.split("\n")
    allprops = [l.split()[0] for l in allprops if l.strip()]
    bad = 0
    for name in names:
        e = idx[name]
        d = scratch()
        try:
            r = subprocess.run(["patch", "-p1", "-s", "-i", os.path.join(MUT, name + ".diff")], cwd=d, capture_output=True, text=True)
            if r.returncode != 0:
                print("%-40s SKIP (patch does not apply)" % name)
                continue
            hit = []
            out_all = ""
            for prop in props_of(e, allprops):
                r = subprocess.run([os.environ.get("OTTERLINT", os.path.join(HERE, "bin", "otterlint")), "-property", prop, "-repo", d, "-verif", HERE, "-no-evidence"], capture_output=True, text=True, env=ENV)
                out_all += r.stdout + r.stderr
                if r.returncode == 2:
                    print("%-40s CHECKER BROKEN on %s\n%s" % (name, prop, r.stderr[-1500:]))
                    bad += 1
                for line in r.stdout.split("\n"):
                    if ": C" in line and "(" in line and not line.startswith("VIOLATION") and not line.startswith("KNOWN"):
                        hit.append(line.replace(d + "/", ""))
            if e.get("neutral"):
                if hit:
                    bad += 1
                    print("%-40s FALSE ALARM on neutral variant:" % name)
                    for h in hit[:5]:
                        print("      " + h[:300])
                else:
                    print("%-40s silent (neutral) ok" % name)
            else:
                rules_hit = sorted({h.split(": ")[1] for h in hit if ": " in h})
                want = set(e["expect"])
                if want & set(rules_hit):
                    print("%-40s KILLED by %s" % (name, ",".join(rules_hit)))
                elif hit:
                    print("%-40s killed by other rule(s) %s (expected %s)" % (name, ",".join(rules_hit), ",".join(want)))
                else:
                    bad += 1
                    print("%-40s SURVIVED (expected %s)" % (name, ",".join(want)))
        finally:
            shutil.rmtree(d, ignore_errors=True)
    return 1 if bad else 0


if __name__ == "__main__":
    if len(sys.argv) < 2:
        print(__doc__)
        sys.exit(2)
    c = sys.argv[1]
    if c == "new":
        sys.exit(cmd_new(sys.argv[2], sys.argv[3], sys.argv[4]))
    if c == "run":
        sys.exit(cmd_run(sys.argv[2:]))
    if c == "list":
        for k, v in sorted(load().items()):
            print(k, v)

#!/usr/bin/env python3
"""Gap probing: applies ad-hoc one-site mutations (file, old text, new text) to scratch copies of /repo and reports which
properties' checks report them. Usage: probe.py <spec.py>   where spec.py defines PROBES = [(name, file, old, new), ...].
Nothing is stored; a probe that no check reports is a gap to look at (then add a rule and a catalogued mutant)."""
import json, os, shutil, subprocess, sys, tempfile
from concurrent.futures import ThreadPoolExecutor
HERE = os.path.dirname(os.path.dirname(os.path.abspath(__file__)))
ENV = dict(os.environ, GOFLAGS="-mod=mod", GOPROXY="off", GOWORK="off")
props = [c["property_id"] for c in json.load(open(os.path.join(HERE, "MANIFEST.json")))["checks"]]
if os.environ.get("PROPS"):
    props = os.environ["PROPS"].split(",")  # e.g. PROPS=ALL: every rule once
ns = {}
exec(open(sys.argv[1]).read(), ns)

def one(p):
    name, file, old, new = p
    s = tempfile.mkdtemp(prefix="otterlint-probe-")
    try:
        subprocess.check_call(["rsync", "-a", "--exclude", ".git", "--exclude", "docs", "--exclude", "benchmarks", "/repo/", s + "/"])
        path = os.path.join(s, file)
        src = open(path).read()
        if src.count(old) != 1:
            return name, "OLD TEXT OCCURS %d TIMES" % src.count(old)
        open(path, "w").write(src.replace(old, new))
        r = subprocess.run(["go", "build", "./..."], cwd=s, env=ENV, capture_output=True, text=True)
        if r.returncode != 0:
            return name, "DOES NOT BUILD: " + r.stderr[:200]
        fired = {}
        for prop in props:
            r = subprocess.run([os.environ.get("OTTERLINT") if os.environ.get("OTTERLINT","x")!="x" else os.path.join(HERE, "bin", "otterlint"), "-property", prop, "-repo", s, "-verif", HERE, "-no-evidence"], capture_output=True, text=True, env=ENV)
            if r.returncode == 2:
                fired.setdefault(prop, set()).add("CHECKER-BROKEN")
            for line in r.stdout.split("\n"):
                if ": C" in line and not line.startswith(("VIOLATION", "KNOWN")) and "(" in line:
                    fired.setdefault(prop, set()).add(line.split(": ")[1])
        return name, ("caught " + str({k: sorted(v) for k, v in sorted(fired.items())})) if fired else "MISSED"
    finally:
        shutil.rmtree(s, ignore_errors=True)

with ThreadPoolExecutor(max_workers=int(os.environ.get("J", "6"))) as ex:
    for name, res in ex.map(one, ns["PROBES"]):
        print("%-40s %s" % (name, res[:400]), flush=True)

#!/bin/bash
# usage: scratchrun.sh <patch> <props comma separated>  - runs the checks on a scratch copy with the patch applied
set -u
s=$(mktemp -d /tmp/otterlint-scratch-XXXX)
git -C /repo archive HEAD | tar -x -C $s
(cd $s && patch -p1 -s -i "$1") || { echo "PATCH FAILS"; rm -rf $s; exit 2; }
for p in ${2//,/ }; do
  GOFLAGS=-mod=mod GOPROXY=off GOWORK=off ${OTTERLINT:-/verif/bin/otterlint} -property $p -repo $s -verif /verif -no-evidence | grep -v "^KNOWN" | grep "NOT SATISFIED\|UNDECIDED\|quick:" | cut -c1-300
done
rm -rf $s

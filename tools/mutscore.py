#!/usr/bin/env python3
"""Static mutation score: first-order mutants (bin/mutgen: negated conditions, deleted call statements, neighbouring
relational operators, && <-> ||) of the given source files of /repo are applied to scratch copies; every distinct rule of the
checker is run once on each (otterlint -property ALL). A surviving mutant is either behaviour-preserving / outside the
properties, or a gap. Nothing is stored in /repo. usage: mutscore.py <outfile.tsv> <file.go> [file.go ...]"""
import os, shutil, subprocess, sys, tempfile
from concurrent.futures import ThreadPoolExecutor
HERE = os.path.dirname(os.path.dirname(os.path.abspath(__file__)))
ENV = dict(os.environ, GOFLAGS="-mod=mod", GOPROXY="off", GOWORK="off")
out = sys.argv[1]
files = sys.argv[2:]
jobs = []
work = tempfile.mkdtemp(prefix="otterlint-mutgen-")
for f in files:
    d = os.path.join(work, f.replace("/", "_"))
    subprocess.check_call([os.path.join(HERE, "bin", "mutgen"), os.path.join("/repo", f), d], stdout=subprocess.DEVNULL)
    for line in open(os.path.join(d, "index.tsv")):
        n, ln, op, detail = line.rstrip("\n").split("\t")
        jobs.append((f, os.path.join(d, n + ".go"), ln, op, detail))

def one(j):
    f, mf, ln, op, detail = j
    s = tempfile.mkdtemp(prefix="otterlint-ms-")
    try:
        subprocess.check_call(["rsync", "-a", "--exclude", ".git", "--exclude", "docs", "--exclude", "benchmarks", "--exclude", "*_test.go", "/repo/", s + "/"])
        shutil.copy(mf, os.path.join(s, f))
        r = subprocess.run(["go", "build", "./..."], cwd=s, env=ENV, capture_output=True, text=True)
        if r.returncode != 0:
            return j, "nobuild", ""
        r = subprocess.run([os.environ.get("OTTERLINT", os.path.join(HERE, "bin", "otterlint")), "-property", "ALL", "-repo", s, "-verif", HERE, "-no-evidence"], capture_output=True, text=True, env=ENV)
        rules = sorted({l.split(": ")[1] for l in r.stdout.split("\n") if ": C" in l and not l.startswith(("VIOLATION", "KNOWN")) and "(" in l})
        if r.returncode == 2:
            return j, "broken", r.stderr[-200:].replace("\n", " ")
        return j, ("killed" if rules else "survived"), ",".join(rules)
    finally:
        shutil.rmtree(s, ignore_errors=True)

with open(out, "w") as o, ThreadPoolExecutor(max_workers=int(os.environ.get("J", "8"))) as ex:
    k = s = nb = 0
    for j, st, rules in ex.map(one, jobs):
        f, mf, ln, op, detail = j
        o.write("\t".join([f, ln, op, detail, st, rules]) + "\n")
        o.flush()
        k += st == "killed"
        s += st == "survived"
        nb += st == "nobuild"
    print("mutants %d: killed %d, survived %d, not building %d" % (len(jobs), k, s, nb))
shutil.rmtree(work, ignore_errors=True)

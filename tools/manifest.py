#!/usr/bin/env python3
"""Regenerates /verif/MANIFEST.json from the table below (keeps claimed checks and not_applicable in sync)."""
import json, os, sys
here = os.path.dirname(os.path.dirname(os.path.abspath(__file__)))

# id -> (technique, level text, level note, design ref)
CLAIMED = {}
exec(open(os.path.join(here, "tools", "claims.py")).read())

ALL = ["C%02d" % i for i in range(1, 21)]
checks = []
for pid in ALL:
    if pid not in CLAIMED:
        continue
    c = CLAIMED[pid]
    checks.append({
        "property_id": pid,
        "quick_cmd": "./check %s quick" % pid,
        "thorough_cmd": "./check %s thorough" % pid,
        "evidence_file": "/verif/evidence/%s.json" % pid,
        "replay_cmd_template": "cat {path}",
        "engine": "otterlint",
        "level_claimed": {"category": "other", "text": c["text"], "design_ref": c["ref"]},
        "level_note": c["note"],
        "technique": c["technique"],
    })
na = [{"property_id": pid, "reason": NOT_APPLICABLE.get(pid, "no static rule built for this property yet; nothing is claimed for it")} for pid in ALL if pid not in CLAIMED]
m = {
    "version": 1,
    "setup_cmd": "cd /verif/checker && GOFLAGS=-mod=mod GOPROXY=off GOWORK=off go build -o /verif/bin/otterlint .",
    "hooks": {
        "guard": "verif",
        "enable": "none needed: the checks read /repo's source (go/packages + go/ssa); no hook or instrumentation is compiled in",
        "baseline_off_cmd": "cd /repo && GOFLAGS=-mod=mod GOPROXY=off go test -vet=off -count=1 -timeout 25m ./... && cd plugin/pslog && GOFLAGS=-mod=mod GOPROXY=off go test -vet=off -count=1 ./...",
        "source_commits": [],
        "add_only": True,
    },
    "engines": [{
        "name": "otterlint",
        "path": "/verif/checker",
        "serves_properties": [c["property_id"] for c in checks],
        "kind_free_text": "repository-specific static analyser over go/types + go/ssa (x/tools v0.29.0): CFG order/pairing rules, edge-dominance guards, who-writes/who-calls censuses, path-sensitive effect summaries, sibling agreement",
    }],
    "checks": checks,
    "not_applicable": na,
    "notes": NOTES,
}
json.dump(m, open(os.path.join(here, "MANIFEST.json"), "w"), indent=1)
print("claimed:", [c["property_id"] for c in checks], "not_applicable:", len(na))

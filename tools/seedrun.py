#!/usr/bin/env python3
"""Runs the checks against seeded changes.
  seedrun.py <dir-with-patchN.diff ...>    dirs like /tmp/seed/out/C14a or /verif/seeded/<id>
For each patch: scratch copy of /repo, apply, run otterlint for every claimed property (or -p list), print which rules fire.
"""
import json, os, shutil, subprocess, sys, tempfile, glob
HERE = os.path.dirname(os.path.dirname(os.path.abspath(__file__)))
ENV = dict(os.environ, GOFLAGS="-mod=mod", GOPROXY="off", GOWORK="off")
props = None
args = sys.argv[1:]
if args and args[0] == "-p":
    props = args[1].split(","); args = args[2:]
if props is None:
    props = [c["property_id"] for c in json.load(open(os.path.join(HERE, "MANIFEST.json")))["checks"]]
for d in args:
    patches = sorted(glob.glob(os.path.join(d, "patch*.diff")))
    for p in patches:
        s = tempfile.mkdtemp(prefix="otterlint-seed-")
        try:
            subprocess.check_call(["rsync", "-a", "--exclude", ".git", "--exclude", "docs", "--exclude", "benchmarks", "/repo/", s + "/"])
            r = subprocess.run(["patch", "-p1", "-s", "-i", p], cwd=s, capture_output=True, text=True)
            if r.returncode != 0:
                print("%s: PATCH DOES NOT APPLY: %s" % (p, r.stdout[:200])); continue
            fired = {}
            for prop in props:
                r = subprocess.run([os.path.join(HERE, "bin", "otterlint"), "-property", prop, "-repo", s, "-verif", HERE, "-no-evidence"], capture_output=True, text=True, env=ENV)
                if r.returncode == 2:
                    print("  CHECKER BROKEN", prop, r.stderr[-500:])
                for line in r.stdout.split("\n"):
                    if ": C" in line and not line.startswith(("VIOLATION", "KNOWN")) and "(" in line:
                        rule = line.split(": ")[1]
                        fired.setdefault(prop, set()).add(rule)
            if fired:
                print("%s: CAUGHT %s" % (p, {k: sorted(v) for k, v in sorted(fired.items())}))
            else:
                print("%s: MISSED (props run: %s)" % (p, ",".join(props)))
        finally:
            shutil.rmtree(s, ignore_errors=True)

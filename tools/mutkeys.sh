#!/bin/sh
# prints the violation keys a mutant produces under a property: tools/mutkeys.sh <mutant> <property>
d=$(mktemp -d /tmp/otterlint-mk-XXXX)
rsync -a --exclude .git --exclude docs --exclude benchmarks /repo/ $d/
(cd $d && patch -p1 -s -i /verif/mutants/$1.diff)
GOFLAGS=-mod=mod GOPROXY=off /verif/bin/otterlint -property $2 -repo $d -verif /verif -no-evidence | grep -oE '\(C[0-9]{2}\.[^|]+\|.*\)$' | sort -u
rm -rf $d

#!/bin/sh
# validates MANIFEST.json and every evidence file against the harness schemas
cd "$(dirname "$0")/.." || exit 2
python3-vt - <<'PY'
import json, glob, jsonschema, sys
ok = True
try:
    jsonschema.validate(json.load(open('MANIFEST.json')), json.load(open('/root/.vp/MANIFEST.schema.json')))
    print('MANIFEST ok')
except Exception as e:
    ok = False; print('MANIFEST INVALID', e)
es = json.load(open('/root/.vp/EVIDENCE.schema.json'))
for f in sorted(glob.glob('evidence/*.json')):
    try:
        jsonschema.validate(json.load(open(f)), es)
    except Exception as e:
        ok = False; print(f, 'INVALID', str(e)[:300])
print('evidence files:', len(glob.glob('evidence/*.json')))
sys.exit(0 if ok else 1)
PY

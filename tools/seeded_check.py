#!/usr/bin/env python3
"""For every confirmed seeded change runs the check of the property it breaks against a scratch copy with the patch applied
and reports which rules fire (the patch is never applied to /repo here)."""
import glob, json, os, shutil, subprocess, tempfile
HERE = os.path.dirname(os.path.dirname(os.path.abspath(__file__)))
ENV = dict(os.environ, GOFLAGS="-mod=mod", GOPROXY="off", GOWORK="off")
rows = []
for m in sorted(glob.glob(os.path.join(HERE, "seeded", "*", "meta.json"))):
    meta = json.load(open(m))
    d = os.path.dirname(m)
    s = tempfile.mkdtemp(prefix="otterlint-seeded-")
    try:
        subprocess.check_call(["rsync", "-a", "--exclude", ".git", "--exclude", "docs", "--exclude", "benchmarks", "/repo/", s + "/"])
        r = subprocess.run(["patch", "-p1", "-s", "-i", os.path.join(d, "patch.diff")], cwd=s, capture_output=True, text=True)
        if r.returncode != 0:
            rows.append((meta["id"], "PATCH DOES NOT APPLY", "")); continue
        r = subprocess.run([os.environ.get("OTTERLINT", os.path.join(HERE, "bin", "otterlint")), "-property", meta["property"], "-repo", s, "-verif", HERE, "-no-evidence"], capture_output=True, text=True, env=ENV)
        rules = sorted({l.split(": ")[1] for l in r.stdout.split("\n") if ": C" in l and not l.startswith(("VIOLATION", "KNOWN")) and "(" in l})
        rows.append((meta["id"], "caught" if (r.returncode == 1 and rules) else "MISSED(exit %d)" % r.returncode, ",".join(rules)))
    finally:
        shutil.rmtree(s, ignore_errors=True)
for r in rows:
    print("%-8s %-18s %s" % r)
print("caught %d / %d" % (sum(1 for r in rows if r[1] == "caught"), len(rows)))

#!/usr/bin/env python3
"""Imports confirmed seeded changes of a later round into /verif/seeded.
usage: import_seeds.py <agents-outdir> <verify-resultdir> <first-index>   (e.g. /tmp/seed2/out /tmp/seed2/res 3 -> Cnn-3, Cnn-4)
Only seeds whose verification record shows: demo passes clean, fails patched, suite passes patched are imported.
The caught-by fields are filled by running every claimed check on a scratch copy (same as seedrun.py)."""
import glob, json, os, shutil, subprocess, sys, tempfile
HERE = os.path.dirname(os.path.dirname(os.path.abspath(__file__)))
ENV = dict(os.environ, GOFLAGS="-mod=mod", GOPROXY="off", GOWORK="off")
src, res, first = sys.argv[1], sys.argv[2], int(sys.argv[3])
props = [c["property_id"] for c in json.load(open(os.path.join(HERE, "MANIFEST.json")))["checks"]]
def fired(patch):
    s = tempfile.mkdtemp(prefix="otterlint-import-")
    out = {}
    try:
        subprocess.check_call(["rsync", "-a", "--exclude", ".git", "--exclude", "docs", "--exclude", "benchmarks", "/repo/", s + "/"])
        r = subprocess.run(["patch", "-p1", "-s", "-i", patch], cwd=s, capture_output=True, text=True)
        if r.returncode != 0:
            return None
        def one(p):
            r = subprocess.run([os.environ.get("OTTERLINT", os.path.join(HERE, "bin", "otterlint")), "-property", p, "-repo", s, "-verif", HERE, "-no-evidence"], capture_output=True, text=True, env=ENV)
            return p, sorted({l.split(": ")[1] for l in r.stdout.split("\n") if ": C" in l and not l.startswith(("VIOLATION", "KNOWN")) and "(" in l})
        from concurrent.futures import ThreadPoolExecutor
        with ThreadPoolExecutor(max_workers=int(os.environ.get("J", "8"))) as ex:
            for p, rules in ex.map(one, props):
                if rules:
                    out[p] = rules
    finally:
        shutil.rmtree(s, ignore_errors=True)
    return out
only = os.environ.get("ONLY", "")
for d in sorted(glob.glob(os.path.join(src, "C*"))):
    prop = os.path.basename(d)
    if only and prop not in only.split(","):
        continue
    for n in (1, 2):
        rec = os.path.join(res, "%s-%d.json" % (prop, n))
        if not os.path.exists(rec):
            print(prop, n, "no verification record"); continue
        v = json.load(open(rec))
        ok = v.get("clean_demo_pass") and v.get("patched_demo_fails") and v.get("suite_passes_with_patch")
        if not ok:
            print(prop, n, "NOT CONFIRMED", {k: v.get(k) for k in ("clean_demo_pass", "patched_demo_fails", "suite_passes_with_patch")}); continue
        sid = "%s-%d" % (prop, first + n - 1)
        dst = os.path.join(HERE, "seeded", sid)
        if os.path.exists(os.path.join(dst, "meta.json")):
            continue
        os.makedirs(dst, exist_ok=True)
        patch = os.path.join(d, "patch%d.diff" % n)
        shutil.copy(patch, os.path.join(dst, "patch.diff"))
        shutil.copy(os.path.join(d, "demo%d_test.go" % n), os.path.join(dst, "demo_test.go.txt"))
        am = json.load(open(os.path.join(d, "meta%d.json" % n)))
        f = fired(patch) or {}
        meta = {
            "id": sid, "property": prop, "summary": am.get("summary", ""), "files": am.get("files", []),
            "needs_to_manifest": am.get("needs", ""),
            "origin": "fresh sub-agent (round %d) given only the property text, one-line summaries of the earlier seeds to avoid, and a scratch worktree of /repo" % ((first + 1) // 2),
            "demo": {"file": "demo_test.go.txt (copy to ./verif_demo_test.go in the package directory named in its header)", "cmd": am.get("demo_cmd", "go test -vet=off -count=1 -run 'TestVerifDemo' .")},
            "confirmed_by_me": {"what_i_ran": "tools/verify_seeds.py in a scratch worktree: (1) demo on clean HEAD, (2) git apply patch.diff + demo, (3) patch without demo + full suite (up to 3 runs)",
                                "demo_passes_on_clean_tree": True, "demo_fails_with_patch": True, "suite_passes_with_patch": True, "suite_flaky_failures_seen": v.get("suite_flaky_failures", [])},
            "caught_by_properties": sorted(f.keys()), "caught_by_rules": f, "caught_by_own_property": prop in f,
        }
        json.dump(meta, open(os.path.join(dst, "meta.json"), "w"), indent=1)
        print(sid, "imported; own property:", prop in f, f.get(prop))

#!/usr/bin/env python3
"""Runs every claimed check against behaviour-preserving variants: tools/neutralrun.py <dir-with-patchN.diff> ...
Any violation is a false alarm of the machinery."""
import json, os, shutil, subprocess, sys, tempfile, glob
from concurrent.futures import ThreadPoolExecutor
HERE = os.path.dirname(os.path.dirname(os.path.abspath(__file__)))
ENV = dict(os.environ, GOFLAGS="-mod=mod", GOPROXY="off", GOWORK="off")
props = [c["property_id"] for c in json.load(open(os.path.join(HERE, "MANIFEST.json")))["checks"]]
if os.environ.get("PROPS"):
    props = os.environ["PROPS"].split(",")
if os.environ.get("ALL"):
    props = ["ALL"]  # every distinct rule once in one process (fast regression; the per-property run is the reference)
def one(p):
    s = tempfile.mkdtemp(prefix="otterlint-neutral-")
    try:
        subprocess.check_call(["rsync", "-a", "--exclude", ".git", "--exclude", "docs", "--exclude", "benchmarks", "/repo/", s + "/"])
        r = subprocess.run(["patch", "-p1", "-s", "-i", p], cwd=s, capture_output=True, text=True)
        if r.returncode != 0:
            return p, ["PATCH DOES NOT APPLY"]
        alarms = []
        for prop in props:
            r = subprocess.run([os.environ.get("OTTERLINT", os.path.join(HERE, "bin", "otterlint")), "-property", prop, "-repo", s, "-verif", HERE, "-no-evidence"], capture_output=True, text=True, env=ENV)
            if r.returncode == 2:
                alarms.append("%s: CHECKER BROKEN %s" % (prop, r.stderr[-300:]))
            for line in r.stdout.split("\n"):
                if ": C" in line and not line.startswith(("VIOLATION", "KNOWN")) and "(" in line:
                    alarms.append(prop + " :: " + line.replace(s + "/", "")[:330])
        return p, sorted(set(alarms))
    finally:
        shutil.rmtree(s, ignore_errors=True)
patches = []
for d in sys.argv[1:] or [os.path.join(HERE, "neutral")]:
    patches += sorted(glob.glob(os.path.join(d, "*.diff")))
with ThreadPoolExecutor(max_workers=8) as ex:
    for p, alarms in ex.map(one, patches):
        if alarms:
            print("%s: %d FALSE ALARM line(s)" % (p, len(alarms)))
            seen = set()
            for a in alarms:
                k = a.split(" :: ")[-1]
                if k in seen:
                    continue
                seen.add(k)
                print("     " + a)
        else:
            print("%s: silent" % p)

#!/usr/bin/env python3
"""First contact of a round of seeded changes with the checks, before import: for every <out>/<Cnn>/patch<k>.diff runs the
check of the seed's own property and the union of all rules (ALL) on a scratch copy. usage: firstcontact.py <outdir> [ids...]"""
import glob, os, shutil, subprocess, sys, tempfile
from concurrent.futures import ThreadPoolExecutor
HERE = os.path.dirname(os.path.dirname(os.path.abspath(__file__)))
ENV = dict(os.environ, GOFLAGS="-mod=mod", GOPROXY="off", GOWORK="off")
src, only = sys.argv[1], sys.argv[2:]
jobs = []
for d in sorted(glob.glob(os.path.join(src, "C*"))):
    prop = os.path.basename(d)
    if only and prop not in only:
        continue
    for n in (1, 2):
        p = os.path.join(d, "patch%d.diff" % n)
        if os.path.exists(p):
            jobs.append((prop, n, p))
def rules(prop, s):
    r = subprocess.run([os.path.join(HERE, "bin", "otterlint"), "-property", prop, "-repo", s, "-verif", HERE, "-no-evidence"], capture_output=True, text=True, env=ENV)
    rs = sorted({l.split(": ")[1] for l in r.stdout.split("\n") if ": C" in l and not l.startswith(("VIOLATION", "KNOWN")) and "(" in l})
    if r.returncode == 2:
        rs.append("CHECKER-BROKEN")
    return rs
def one(j):
    prop, n, p = j
    s = tempfile.mkdtemp(prefix="otterlint-fc-")
    try:
        subprocess.check_call(["rsync", "-a", "--exclude", ".git", "--exclude", "docs", "--exclude", "benchmarks", "/repo/", s + "/"])
        r = subprocess.run(["patch", "-p1", "-s", "-i", p], cwd=s, capture_output=True, text=True)
        if r.returncode != 0:
            return j, ["PATCH DOES NOT APPLY"], []
        own = rules(prop, s)
        return j, own, ([] if own else rules("ALL", s))
    finally:
        shutil.rmtree(s, ignore_errors=True)
with ThreadPoolExecutor(max_workers=int(os.environ.get("J", "6"))) as ex:
    for (prop, n, p), own, allr in ex.map(one, jobs):
        print("%s-%d  own: %-50s %s" % (prop, n, ",".join(own) or "MISSED", ("other: " + ",".join(allr)) if (not own) else ""), flush=True)

// mutgen: generates first-order mutants of a Go source file for gap measurement of the static checks.
// usage: mutgen <file.go> <outdir>   writes <outdir>/<n>.go (the whole mutated file) and <outdir>/index.tsv (n, line, operator, detail)
// Operators: negate an if condition; delete a call statement; swap a relational operator with its neighbour (< <=, > >=, == !=);
// replace && by || and vice versa; drop a `return` guard (if cond { return ... } -> removed) is covered by negation.
package main

import (
	"bytes"
	"fmt"
	"go/ast"
	"go/parser"
	"go/printer"
	"go/token"
	"os"
	"path/filepath"
)

func main() {
	file, out := os.Args[1], os.Args[2]
	os.MkdirAll(out, 0o755)
	src, err := os.ReadFile(file)
	if err != nil {
		panic(err)
	}
	idx, _ := os.Create(filepath.Join(out, "index.tsv"))
	defer idx.Close()
	n := 0
	emit := func(fset *token.FileSet, f *ast.File, pos token.Pos, op, detail string) {
		var buf bytes.Buffer
		if err := printer.Fprint(&buf, fset, f); err != nil {
			return
		}
		n++
		os.WriteFile(filepath.Join(out, fmt.Sprintf("%d.go", n)), buf.Bytes(), 0o644)
		fmt.Fprintf(idx, "%d\t%d\t%s\t%s\n", n, fset.Position(pos).Line, op, detail)
	}
	// count sites first (parse fresh for every mutant so that each is first-order)
	type site struct {
		kind string
		k    int
	}
	var sites []site
	{
		fset := token.NewFileSet()
		f, err := parser.ParseFile(fset, file, src, parser.ParseComments)
		if err != nil {
			panic(err)
		}
		ni, nc, nb, nl := 0, 0, 0, 0
		ast.Inspect(f, func(x ast.Node) bool {
			switch y := x.(type) {
			case *ast.IfStmt:
				sites = append(sites, site{"if", ni})
				ni++
			case *ast.ExprStmt:
				if _, ok := y.X.(*ast.CallExpr); ok {
					sites = append(sites, site{"call", nc})
					nc++
				}
			case *ast.BinaryExpr:
				switch y.Op {
				case token.LSS, token.LEQ, token.GTR, token.GEQ, token.EQL, token.NEQ:
					sites = append(sites, site{"rel", nb})
					nb++
				case token.LAND, token.LOR:
					sites = append(sites, site{"logic", nl})
					nl++
				}
			}
			return true
		})
	}
	for _, s := range sites {
		fset := token.NewFileSet()
		f, _ := parser.ParseFile(fset, file, src, parser.ParseComments)
		ni, nc, nb, nl := 0, 0, 0, 0
		done := false
		ast.Inspect(f, func(x ast.Node) bool {
			if done {
				return false
			}
			switch y := x.(type) {
			case *ast.IfStmt:
				if s.kind == "if" && ni == s.k {
					y.Cond = &ast.UnaryExpr{Op: token.NOT, X: &ast.ParenExpr{X: y.Cond}}
					done = true
					emit(fset, f, y.Pos(), "negate-if", "")
				}
				ni++
			case *ast.BlockStmt:
				for i, st := range y.List {
					if es, ok := st.(*ast.ExprStmt); ok {
						if _, isCall := es.X.(*ast.CallExpr); isCall {
							if s.kind == "call" && nc == s.k {
								pos := es.Pos()
								y.List = append(append([]ast.Stmt{}, y.List[:i]...), y.List[i+1:]...)
								done = true
								emit(fset, f, pos, "delete-call", "")
								return false
							}
							nc++
						}
					}
				}
			case *ast.CaseClause:
				for i, st := range y.Body {
					if es, ok := st.(*ast.ExprStmt); ok {
						if _, isCall := es.X.(*ast.CallExpr); isCall {
							if s.kind == "call" && nc == s.k {
								pos := es.Pos()
								y.Body = append(append([]ast.Stmt{}, y.Body[:i]...), y.Body[i+1:]...)
								done = true
								emit(fset, f, pos, "delete-call", "")
								return false
							}
							nc++
						}
					}
				}
			case *ast.BinaryExpr:
				switch y.Op {
				case token.LSS, token.LEQ, token.GTR, token.GEQ, token.EQL, token.NEQ:
					if s.kind == "rel" && nb == s.k {
						m := map[token.Token]token.Token{token.LSS: token.LEQ, token.LEQ: token.LSS, token.GTR: token.GEQ, token.GEQ: token.GTR, token.EQL: token.NEQ, token.NEQ: token.EQL}
						old := y.Op
						y.Op = m[y.Op]
						done = true
						emit(fset, f, y.Pos(), "rel", old.String()+"->"+y.Op.String())
					}
					nb++
				case token.LAND, token.LOR:
					if s.kind == "logic" && nl == s.k {
						old := y.Op
						if y.Op == token.LAND {
							y.Op = token.LOR
						} else {
							y.Op = token.LAND
						}
						done = true
						emit(fset, f, y.Pos(), "logic", old.String()+"->"+y.Op.String())
					}
					nl++
				}
			}
			return true
		})
	}
	fmt.Println(n, "mutants")
}

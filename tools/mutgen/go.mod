module mutgen

go 1.23
